---------------------------- MODULE SentenceWrap ----------------------------
(* line_wrappers.line_wrap_by_sentence as a machine: one action per sentence, the inner greedy fill
   (wrap_paragraph_lines, quirks included) as a recursive operator.  All operators take the paragraph
   context cx = [ws, width, minlen, ii, si, md] explicitly so that the module can be self-composed:
   DiffLocal compares the run on a paragraph with the runs on all its single-sentence edits (C11).

   Words are [k, n]: "p" plain, "s" sentence-ending word (accepted by SENTENCE_END_RE), "h"/"n" marker
   words that markdown_escape_word protects at the start of a continuation line.
   An output line is a sequence of [w |-> word index, e |-> escaped]. *)
EXTENDS Integers, Sequences, FiniteSets, TLC, Json
CONSTANTS MaxWords, Lens, Kinds, Widths, MinLens, Indents, Mds, DoDump, DoDiff
VARIABLES words, width, minlen, ii, si, md, s, lines, pc
vars == <<words, width, minlen, ii, si, md, s, lines, pc>>

WordSet == {[k |-> "p", n |-> l] : l \in Lens}
           \cup {[k |-> "s", n |-> l] : l \in {x \in Lens : x >= 3}}
           \cup (IF "h" \in Kinds THEN {[k |-> "h", n |-> 1]} ELSE {})
           \cup (IF "n" \in Kinds THEN {[k |-> "n", n |-> 2]} ELSE {})
WordSeqs == UNION {[1..m -> WordSet] : m \in 1..MaxWords}
Escapable(w) == w.k \in {"h", "n"}

\* ---------- pure operators over a context ----------
RECURSIVE Sents(_, _, _)
Sents(ws, from, acc) ==        \* sentences = maximal runs ending at an "s" word (min_length = 0)
  IF from > Len(ws) THEN acc
  ELSE LET e == CHOOSE j \in from..Len(ws) : (ws[j].k = "s" \/ j = Len(ws)) /\ \A m \in from..(j-1) : ws[m].k # "s"
       IN Sents(ws, e + 1, Append(acc, [lo |-> from, hi |-> e]))
SentsOf(ws) == Sents(ws, 1, <<>>)

ELen(cx, t) == cx.ws[t.w].n + (IF t.e THEN 1 ELSE 0)
RECURSIVE Sum(_, _)
Sum(cx, l) == IF l = <<>> THEN 0 ELSE ELen(cx, Head(l)) + Sum(cx, Tail(l))
LLen(cx, l) == Sum(cx, l) + Len(l) - 1

\* greedy fill of words i..hi starting at column curw (transcribed from wrap_paragraph_lines)
RECURSIVE Fill(_, _, _, _, _, _, _)
Fill(cx, i, hi, cur, curw, first, acc) ==
  IF i > hi THEN (IF cur = <<>> THEN acc ELSE Append(acc, cur))
  ELSE LET sp == IF cur = <<>> THEN 0 ELSE 1
           n == cx.ws[i].n
       IN IF curw + n + sp <= cx.width
            THEN Fill(cx, i + 1, hi, Append(cur, [w |-> i, e |-> FALSE]), curw + n + sp, first, acc)
            ELSE LET first2 == IF cur = <<>> THEN first ELSE FALSE
                     esc == cx.md /\ ~first2 /\ Escapable(cx.ws[i])
                 IN Fill(cx, i + 1, hi, <<[w |-> i, e |-> esc]>>, cx.si + n + (IF esc THEN 1 ELSE 0), first2,
                         IF cur = <<>> THEN acc ELSE Append(acc, cur))

\* one loop iteration of line_wrapper(): sentence number sn (1-based) of the paragraph
StepSentence(cx, ls, sn) ==
  LET sent == SentsOf(cx.ws)[sn]
      last == ls[Len(ls)]
      short == ls # <<>> /\ LLen(cx, last) < cx.minlen
      col == (IF sn = 1 THEN cx.ii ELSE cx.si) + (IF short THEN LLen(cx, last) ELSE 0)
      wrapped == Fill(cx, sent.lo, sent.hi, <<>>, col, TRUE, <<>>)
      merge == short /\ wrapped # <<>> /\ LLen(cx, last) + 1 + LLen(cx, wrapped[1]) <= cx.width
  IN IF merge THEN [ls EXCEPT ![Len(ls)] = @ \o wrapped[1]] \o Tail(wrapped) ELSE ls \o wrapped
RECURSIVE RunFrom(_, _, _)
RunFrom(cx, ls, sn) == IF sn > Len(SentsOf(cx.ws)) THEN ls ELSE RunFrom(cx, StepSentence(cx, ls, sn), sn + 1)
OneLineOf(cx) == <<[j \in 1..Len(cx.ws) |-> [w |-> j, e |-> FALSE]]>>
RunAll(cx) == IF cx.width <= 0 THEN OneLineOf(cx) ELSE RunFrom(cx, <<>>, 1)

\* ---------- the machine ----------
CX == [ws |-> words, width |-> width, minlen |-> minlen, ii |-> ii, si |-> si, md |-> md]
Init == /\ words \in WordSeqs /\ width \in Widths /\ minlen \in MinLens /\ ii \in Indents /\ si \in Indents
        /\ md \in Mds /\ s = 1 /\ lines = <<>> /\ pc = IF width <= 0 THEN "nowrap" ELSE "loop"
Sentence == /\ pc = "loop" /\ s <= Len(SentsOf(words))
            /\ lines' = StepSentence(CX, lines, s) /\ s' = s + 1
            /\ UNCHANGED <<words, width, minlen, ii, si, md, pc>>
Finish == /\ pc = "loop" /\ s > Len(SentsOf(words)) /\ pc' = "done"
          /\ UNCHANGED <<words, width, minlen, ii, si, md, s, lines>>
NoWrap == /\ pc = "nowrap" /\ lines' = OneLineOf(CX) /\ pc' = "done"
          /\ UNCHANGED <<words, width, minlen, ii, si, md, s>>
Next == Sentence \/ Finish \/ NoWrap
Spec == Init /\ [][Next]_vars
Done == pc = "done"

\* ---------- property-level predicates (parameterised: reused on observed lines by SentenceTrace) ----------
Off(cx, j) == IF j = 1 THEN cx.ii ELSE cx.si
IsSent(cx, t) == cx.ws[t.w].k = "s"
RECURSIVE Flat(_)
Flat(ls) == IF ls = <<>> THEN <<>> ELSE [j \in 1..Len(Head(ls)) |-> Head(ls)[j].w] \o Flat(Tail(ls))
LosslessP(cx, ls) == Flat(ls) = [j \in 1..Len(cx.ws) |-> j]
BoundedLine(cx, ls, j) == Off(cx, j) + LLen(cx, ls[j]) <= cx.width \/ Len(ls[j]) = 1
\* P1: the break after line j follows a sentence end or is forced by the width
P1Line(cx, ls, j) == IsSent(cx, ls[j][Len(ls[j])])
                     \/ Off(cx, j) + LLen(cx, ls[j]) + 1 + cx.ws[ls[j+1][1].w].n > cx.width
\* P2: a sentence end inside a line => the line up to it is shorter than min_line_len
P2Line(cx, ls, j) == \A t \in 1..(Len(ls[j]) - 1) : IsSent(cx, ls[j][t]) => LLen(cx, SubSeq(ls[j], 1, t)) < cx.minlen

\* ---------- D14 / D13 triggers, per output line (see known_findings.json) ----------
\* The merge of a short sentence-final line with the next sentence is computed with the wrong column: the
\* continuation column omits the joining space and always uses the continuation indent, and the merge test
\* ignores the indent altogether.  Two shapes result:
\*   Merged(j): line j holds a sentence end followed by more words (a merge happened)  -> line j may be too long
\*   AfterShort(j): line j-1 is a short sentence-final line that was NOT merged            -> line j was filled for
\*                  the narrower column and may break early
Merged(cx, ls, j) == \E t \in 1..(Len(ls[j]) - 1) : IsSent(cx, ls[j][t]) /\ LLen(cx, SubSeq(ls[j], 1, t)) < cx.minlen
AfterShort(cx, ls, j) == j > 1 /\ IsSent(cx, ls[j-1][Len(ls[j-1])]) /\ LLen(cx, ls[j-1]) < cx.minlen
Trig14(cx, ls, j) == Merged(cx, ls, j) \/ AfterShort(cx, ls, j)
\* D13 through the sentence wrapper: the first word of the paragraph does not fit after the first-line indent
Trig13(cx, ls, j) == j = 1 /\ cx.ii + cx.ws[1].n > cx.width

Lossless == Done => LosslessP(CX, lines)
BoundedK == Done /\ width > 0 => \A j \in 1..Len(lines) : BoundedLine(CX, lines, j) \/ Trig14(CX, lines, j) \/ Trig13(CX, lines, j)
P1K == Done /\ width > 0 => \A j \in 1..(Len(lines) - 1) : P1Line(CX, lines, j) \/ Trig14(CX, lines, j) \/ Trig13(CX, lines, j)
P2 == Done /\ width > 0 => \A j \in 1..Len(lines) : P2Line(CX, lines, j)

\* ---------- diff locality (self-composition) ----------
LineOf(ls, wi) == CHOOSE j \in 1..Len(ls) : \E t \in 1..Len(ls[j]) : ls[j][t].w = wi
Txt(cx, l) == [t \in 1..Len(l) |-> [k |-> cx.ws[l[t].w].k, n |-> cx.ws[l[t].w].n, e |-> l[t].e]]
TxtFrom(cx, ls, a) == [j \in 1..(Len(ls) - a) |-> Txt(cx, ls[a + j])]
EndsLong(cx, ls, sn) == LET hi == SentsOf(cx.ws)[sn].hi
                            l == ls[LineOf(ls, hi)]
                        IN l[Len(l)].w = hi /\ LLen(cx, l) >= cx.minlen
\* A, B: [cx, ls]; sentence j is the edited one (same number of sentences in both)
Local(A, B, j) ==
  LET SA == SentsOf(A.cx.ws)
      SB == SentsOf(B.cx.ws)
      pa == IF j = 1 THEN 1 ELSE LineOf(A.ls, SA[j-1].hi)
      pb == IF j = 1 THEN 1 ELSE LineOf(B.ls, SB[j-1].hi)
      K == {k \in j..Len(SA) : EndsLong(A.cx, A.ls, k) /\ EndsLong(B.cx, B.ls, k)}
  IN /\ pa = pb /\ \A t \in 1..(pa - 1) : Txt(A.cx, A.ls[t]) = Txt(B.cx, B.ls[t])
     /\ K # {} => LET k0 == CHOOSE k \in K : \A m \in K : k <= m
                      a == LineOf(A.ls, SA[k0].hi)
                      b == LineOf(B.ls, SB[k0].hi)
                  IN TxtFrom(A.cx, A.ls, a) = TxtFrom(B.cx, B.ls, b)
\* single-sentence edits of `ws`: change the length of one word (same kind), or insert a plain word in front
Resize(ws, i, n) == [ws EXCEPT ![i].n = n]
InsertAt(ws, i, w) == SubSeq(ws, 1, i - 1) \o <<w>> \o SubSeq(ws, i, Len(ws))
SentOfWord(ws, i) == CHOOSE q \in 1..Len(SentsOf(ws)) : SentsOf(ws)[q].lo <= i /\ i <= SentsOf(ws)[q].hi
Edits(ws) == UNION {{[ws |-> Resize(ws, i, n), j |-> SentOfWord(ws, i)] :
                        n \in {x \in Lens : x # ws[i].n /\ (ws[i].k = "s" => x >= 3)}} : i \in 1..Len(ws)}
             \cup {[ws |-> InsertAt(ws, SentsOf(ws)[q].lo, [k |-> "p", n |-> n]), j |-> q] : q \in 1..Len(SentsOf(ws)), n \in Lens}
DiffLocal == (Done /\ DoDiff /\ width > 0 /\ \A i \in 1..Len(words) : words[i].k \in {"p", "s"}) =>
               \A e \in Edits(words) :
                 LET cxe == [CX EXCEPT !.ws = e.ws]
                 IN Local([cx |-> CX, ls |-> lines], [cx |-> cxe, ls |-> RunAll(cxe)], e.j)
MachineIsRunAll == Done => lines = RunAll(CX)

Dump == (Done /\ DoDump) => PrintT(ToJson(<<"B", words, width, minlen, ii, si, md, lines>>))
=============================================================================
