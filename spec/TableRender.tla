---------------------------- MODULE TableRender ----------------------------
(* GFM table emission: MarkdownNormalizer.render_table / render_table_row / render_table_cell (C01, C02, C04).
   A table is [al |-> alignment per column ("n" none, "l" left, "r" right, "c" center), head |-> cell kinds, rows |-> Seq(Seq(cell kind))]
   with rows of any length >= 1 (GFM: a short row is completed with empty cells, the excess of a long row is ignored; marko does both
   while parsing, so the renderer sees rows of the header's width).  Cell kinds:
       "w" a word   "e" empty   "p" text with an escaped pipe (x \| y)   "c" a code span holding an escaped pipe (`c\|d`)
       "m" emphasis (*e*)
   path = the container ("top" | "quote" | "item" -- a table after a paragraph in a list item).
   The machine emits one line per action: EmitHead, EmitDelim, EmitRow.  A line is [p |-> prefix kind "first" | "cont", k |-> "row" | "delim", cells].
   Properties of the machine (checked by TLC on every table):
     AlignKept   -- the delimiter row spells the authored alignments in normal form,
     CellsKept   -- every emitted row holds the authored cells in order, completed / cut to the header's width, pipes still escaped,
     Shape       -- head, delimiter row, one line per authored row; first line behind the first-line prefix, the others behind the continuation prefix. *)
EXTENDS Naturals, Sequences, FiniteSets, TLC, Json
CONSTANTS MaxCols, MaxRows, HeadKinds, CellKinds, Paths, DoDump
VARIABLES tbl, path, i, outl, pc
vars == <<tbl, path, i, outl, pc>>
Aligns == {"n", "l", "r", "c"}
RowsOf(nc) == UNION {[1..len -> CellKinds] : len \in (IF nc = 1 THEN {1, 2} ELSE {nc - 1, nc, nc + 1})}
Tables == UNION {[al : [1..nc -> Aligns], head : [1..nc -> HeadKinds], rows : UNION {[1..nr -> RowsOf(nc)] : nr \in 0..MaxRows}] : nc \in 1..MaxCols}
NCols == Len(tbl.al)
\* what the parser hands to the renderer: rows of the header's width
Norm(r) == [j \in 1..NCols |-> IF j <= Len(r) THEN r[j] ELSE "e"]
DelimOf(a) == CASE a = "c" -> ":---:" [] a = "l" -> ":---" [] a = "r" -> "---:" [] OTHER -> "---"

Init == /\ tbl \in Tables /\ path \in Paths /\ i = 0 /\ outl = <<>> /\ pc = "head"
EmitHead == /\ pc = "head" /\ outl' = <<[p |-> "first", k |-> "row", cells |-> tbl.head]>> /\ pc' = "delim" /\ UNCHANGED <<tbl, path, i>>
EmitDelim == /\ pc = "delim" /\ outl' = Append(outl, [p |-> "cont", k |-> "delim", cells |-> [j \in 1..NCols |-> DelimOf(tbl.al[j])]])
         /\ pc' = "rows" /\ i' = 1 /\ UNCHANGED <<tbl, path>>
EmitRow == /\ pc = "rows" /\ i <= Len(tbl.rows)
       /\ outl' = Append(outl, [p |-> "cont", k |-> "row", cells |-> Norm(tbl.rows[i])]) /\ i' = i + 1 /\ UNCHANGED <<tbl, path, pc>>
Finish == /\ pc = "rows" /\ i > Len(tbl.rows) /\ pc' = "done" /\ UNCHANGED <<tbl, path, i, outl>>
Next == EmitHead \/ EmitDelim \/ EmitRow \/ Finish
Spec == Init /\ [][Next]_vars
Done == pc = "done"

\* the properties, stated on a sequence of line records (the machine's or an observed one)
AlignOf(d) == CASE d = ":---:" -> "c" [] d = ":---" -> "l" [] d = "---:" -> "r" [] d = "---" -> "n" [] OTHER -> "?"
AlignKeptOn(o) == Len(o) >= 2 /\ o[2].k = "delim" /\ Len(o[2].cells) = NCols /\ \A j \in 1..NCols : AlignOf(o[2].cells[j]) = tbl.al[j]
CellsKeptOn(o) == /\ Len(o) = Len(tbl.rows) + 2 /\ o[1].k = "row" /\ o[1].cells = tbl.head
                  /\ \A r \in 1..Len(tbl.rows) : o[r + 2].k = "row" /\ o[r + 2].cells = Norm(tbl.rows[r])
ShapeOn(o) == Len(o) >= 2 /\ o[1].p = "first" /\ \A j \in 2..Len(o) : o[j].p = "cont"
AlignKept == Done => AlignKeptOn(outl)
CellsKept == Done => CellsKeptOn(outl)
Shape == Done => ShapeOn(outl)
Dump == (Done /\ DoDump) => PrintT(ToJson(<<"T", tbl, path>>))
=============================================================================
