------------------------------ MODULE IsoTrace ------------------------------
(* Validation of observed executions for C13.
   kind "sched": a run of NThreads real reformat_text calls under the deterministic scheduler:
        [id, kind, sched (thread id per executed segment), results, solo, touches]
        results[t] / solo[t] = digest ids of the result under the schedule / of the same call run alone;
        touches = sequence of [t, o]: thread t entered a method of (kept-alive) object number o.
   kind "hist":  calls executed one after the other in one process:
        results[i] vs solo[i] (solo = fresh process).
   Decided: (1) `sched` is a behaviour of Isolation!Spec (each step enabled: preemption bound, step counts),
            (2) Isolated: every result equals the solo result  (the only verdict),
            (3) OwnObjects: no object is entered by two threads (diagnostic: steers the search). *)
EXTENDS Isolation, IOUtils
Traces == JsonDeserialize(IOEnv.TRACE_FILE)
VARIABLES tid, l, acc
tvars == <<vars, tid, l, acc>>
T == Traces[tid]
TraceInit == Init /\ tid \in 1..Len(Traces) /\ l = 1 /\ acc = TRUE
TraceStep == /\ T.kind = "sched" /\ l <= Len(T.sched)
             /\ IF acc /\ T.sched[l] \in Threads /\ CanStep(T.sched[l])
                  THEN Step(T.sched[l]) /\ UNCHANGED acc
                  ELSE acc' = FALSE /\ UNCHANGED vars
             /\ l' = l + 1 /\ UNCHANGED tid
TraceSpec == TraceInit /\ [][TraceStep]_tvars
Finished == T.kind = "hist" \/ l > Len(T.sched)
ResultsEqual == [i \in 1..Len(T.results) |-> T.results[i] = T.solo[i]]
Shared == {o \in {T.touches[i].o : i \in 1..Len(T.touches)} :
             \E i, j \in 1..Len(T.touches) : T.touches[i].o = o /\ T.touches[j].o = o /\ T.touches[i].t # T.touches[j].t}
Report == Finished => PrintT(ToJson(<<"R", T.id, acc /\ (T.kind = "sched" => Done), ResultsEqual, Cardinality(Shared)>>))
=============================================================================
