---------------------------- MODULE Render ----------------------------
(* Prototype: MarkdownNormalizer as a token-stream machine. Tokens are a preorder walk of a
   marko-shaped AST: P para, H heading, B BlankLine, C code, "Q(" quote, "Lt("/"Ll(" tight/loose
   bullet list, "I(" list item, ")" close.  Builder actions grow the token stream; Render actions
   consume it one token (= one render_* call) at a time. *)
EXTENDS Naturals, Sequences, FiniteSets, TLC
CONSTANTS MaxNodes, MaxDepth, Leafs, FixedT, Fixed     \* Fixed = TRUE: the renderer after the D4 repair (blank line after a heading keeps the container prefix; a quote resets skip on exit)
VARIABLES toks, open,            \* builder: token stream so far, stack of open container kinds
          mode,                  \* "build" | "render" | "done"
          k,                     \* next token to render
          prefix, second, suppress, skip, tight,   \* renderer fields (prefixes = seqs of "Q","B","I")
          stack,                 \* renderer frames: [kind, oldP, oldS, oldTight]
          ctx,                   \* ghost: open containers [kind |-> "Q"|"I", fresh |-> BOOLEAN]
          lines                  \* emitted: [p |-> prefix markers, b |-> body, exp |-> expected markers]
vars == <<toks, open, mode, k, prefix, second, suppress, skip, tight, stack, ctx, lines>>

Leaf == Leafs       \* subset of {"P", "H", "B", "C", "T" (table: header, delimiter, one row), "R" (thematic break)}
\* FixedT = TRUE: render_table emits the container prefixes and resets the blank-line flags (repair of D43 / D34)
Nodes == Cardinality({j \in 1..Len(toks) : toks[j] # ")"})

Init == /\ toks = <<>> /\ open = <<>> /\ mode = "build" /\ k = 1
        /\ prefix = <<>> /\ second = <<>> /\ suppress = TRUE /\ skip = FALSE /\ tight = FALSE
        /\ stack = <<>> /\ ctx = <<>> /\ lines = <<>>

Top == IF open = <<>> THEN "D" ELSE open[Len(open)]
LastTok == IF toks = <<>> THEN "" ELSE toks[Len(toks)]
\* well-formedness of the marko AST: list children are items; items/quotes hold blocks; no two
\* adjacent BlankLine nodes; a container is not empty when closed.
AddLeaf(t) == /\ mode = "build" /\ Nodes < MaxNodes /\ Top \in {"D", "Q", "I"}
              /\ ~(t = "B" /\ LastTok \in {"B", "Q(", "I(", ""})
              /\ toks' = Append(toks, t) /\ UNCHANGED open
OpenC(t) == /\ mode = "build" /\ Nodes < MaxNodes /\ Len(open) < MaxDepth
            /\ IF t = "I(" THEN Top = "L" ELSE Top \in {"D", "Q", "I"}
            /\ toks' = Append(toks, t)
            /\ open' = Append(open, IF t = "Q(" THEN "Q" ELSE IF t = "I(" THEN "I" ELSE "L")
CloseC == /\ mode = "build" /\ open # <<>> /\ LastTok \notin {"Q(", "Lt(", "Ll(", "I(", "B"}
          /\ toks' = Append(toks, ")") /\ open' = SubSeq(open, 1, Len(open) - 1)
Build == /\ (\E t \in Leaf : AddLeaf(t)) \/ (\E t \in {"Q(", "Lt(", "Ll(", "I("} : OpenC(t)) \/ CloseC
         /\ UNCHANGED <<mode, k, prefix, second, suppress, skip, tight, stack, ctx, lines>>
StartRender == /\ mode = "build" /\ open = <<>> /\ toks # <<>> /\ LastTok # "B"
               /\ mode' = "render"
               /\ UNCHANGED <<toks, open, k, prefix, second, suppress, skip, tight, stack, ctx, lines>>

\* ---------- ghost: what prefix a CommonMark reader needs on the next line ----------
ExpNonBlank == [j \in 1..Len(ctx) |-> IF ctx[j].kind = "Q" THEN "Q" ELSE IF ctx[j].fresh THEN "B" ELSE "I"]
Used == [j \in 1..Len(ctx) |-> [ctx[j] EXCEPT !.fresh = FALSE]]
Emit(p, b) == [p |-> p, b |-> b, exp |-> ExpNonBlank]

HasMarker(p) == \E j \in 1..Len(p) : p[j] \in {"Q", "B"}
RECURSIVE LStrip(_), RStrip(_)
LStrip(p) == IF p # <<>> /\ Head(p) = "I" THEN LStrip(Tail(p)) ELSE p
RStrip(p) == IF p # <<>> /\ p[Len(p)] = "I" THEN RStrip(SubSeq(p, 1, Len(p) - 1)) ELSE p
Strip(p) == LStrip(RStrip(p))

T == toks[k]
Adv == k' = k + 1 /\ UNCHANGED <<toks, open, mode>>

RPara == /\ T = "P" /\ lines' = Append(lines, Emit(prefix, "text")) /\ ctx' = Used
         /\ prefix' = second /\ skip' = FALSE /\ suppress' = FALSE /\ UNCHANGED <<second, tight, stack>> /\ Adv
RHead == /\ T = "H" /\ lines' = lines \o <<Emit(prefix, "head"), [p |-> IF Fixed THEN RStrip(second) ELSE <<>>, b |-> "blank", exp |-> ExpNonBlank]>>
         /\ ctx' = Used /\ prefix' = second /\ skip' = TRUE /\ suppress' = TRUE
         /\ UNCHANGED <<second, tight, stack>> /\ Adv
RBlank == /\ T = "B"
          /\ IF skip THEN /\ skip' = FALSE /\ UNCHANGED <<lines, suppress, prefix>>
                     ELSE /\ lines' = Append(lines, [p |-> IF HasMarker(prefix) THEN prefix ELSE <<>>, b |-> "blank", exp |-> ExpNonBlank])
                          /\ suppress' = TRUE /\ prefix' = second /\ UNCHANGED skip
          /\ UNCHANGED <<second, tight, stack, ctx>> /\ Adv
RCode == /\ T = "C" /\ lines' = lines \o <<Emit(prefix, "fence"), [p |-> second, b |-> "fence", exp |-> [j \in 1..Len(ctx) |-> IF ctx[j].kind = "Q" THEN "Q" ELSE "I"]]>>
         /\ ctx' = Used /\ prefix' = second /\ skip' = FALSE /\ suppress' = FALSE
         /\ UNCHANGED <<second, tight, stack>> /\ Adv
ExpCont == [j \in 1..Len(ctx) |-> IF ctx[j].kind = "Q" THEN "Q" ELSE "I"]
RTable == /\ T = "T"
          /\ lines' = lines \o <<[p |-> IF FixedT THEN prefix ELSE <<>>, b |-> "thead", exp |-> ExpNonBlank],
                                  [p |-> IF FixedT THEN second ELSE <<>>, b |-> "tdelim", exp |-> ExpCont],
                                  [p |-> IF FixedT THEN second ELSE <<>>, b |-> "trow", exp |-> ExpCont]>>
          /\ ctx' = Used
          /\ IF FixedT THEN prefix' = second /\ skip' = FALSE /\ suppress' = FALSE ELSE UNCHANGED <<prefix, skip, suppress>>
          /\ UNCHANGED <<second, tight, stack>> /\ Adv
RRule == /\ T = "R" /\ lines' = Append(lines, Emit(prefix, "hr")) /\ ctx' = Used /\ prefix' = second
         /\ skip' = (IF FixedT THEN FALSE ELSE skip) /\ UNCHANGED <<second, suppress, tight, stack>> /\ Adv
RQuoteIn == /\ T = "Q(" /\ skip' = FALSE
            /\ stack' = Append(stack, [kind |-> "Q", oldP |-> prefix, oldS |-> second, oldTight |-> tight, start |-> Len(lines)])
            /\ prefix' = Append(prefix, "Q") /\ second' = Append(second, "Q")
            /\ ctx' = Append(ctx, [kind |-> "Q", fresh |-> FALSE])
            /\ suppress' = (IF Fixed THEN TRUE ELSE suppress)       \* D58 repair: nothing to separate from at the start of a quote
            /\ UNCHANGED <<tight, lines>> /\ Adv
RListIn == /\ T \in {"Lt(", "Ll("} /\ skip' = FALSE
           /\ stack' = Append(stack, [kind |-> "L", oldP |-> prefix, oldS |-> second, oldTight |-> tight, start |-> Len(lines)])
           /\ tight' = (T = "Lt(")
           /\ UNCHANGED <<prefix, second, suppress, ctx, lines>> /\ Adv
RItemIn == /\ T = "I("
           /\ stack' = Append(stack, [kind |-> "I", oldP |-> prefix, oldS |-> second, oldTight |-> tight, start |-> Len(lines)])
           /\ prefix' = Append(prefix, "B") /\ second' = Append(second, "I")
           /\ ctx' = Append(ctx, [kind |-> "I", fresh |-> TRUE])
           /\ IF ~tight /\ ~suppress
                \* the separator line is the continuation prefix without trailing spaces (before the D50 repair: str.strip(), which also dropped a leading list indent)
                THEN lines' = Append(lines, [p |-> IF Fixed THEN RStrip(Append(second, "I")) ELSE Strip(Append(second, "I")), b |-> "blank", exp |-> ExpNonBlank]) /\ UNCHANGED suppress
                ELSE /\ suppress' = (IF ~tight THEN FALSE ELSE suppress) /\ UNCHANGED lines
           /\ UNCHANGED <<skip, tight>> /\ Adv
RECURSIVE DropBare(_)
DropBare(ls) == IF ls # <<>> /\ ls[Len(ls)].b = "blank" /\ ls[Len(ls)].p = <<>> THEN DropBare(SubSeq(ls, 1, Len(ls) - 1)) ELSE ls
RClose == /\ T = ")" /\ LET f == stack[Len(stack)] IN
             /\ stack' = SubSeq(stack, 1, Len(stack) - 1)
             /\ CASE f.kind = "Q" -> /\ second' = f.oldS /\ prefix' = f.oldS /\ suppress' = FALSE
                                     /\ lines' = DropBare(lines) /\ UNCHANGED tight
                                     /\ ctx' = SubSeq(ctx, 1, Len(ctx) - 1)
                  [] f.kind = "I" -> /\ prefix' = (IF Fixed THEN f.oldS ELSE f.oldP) /\ second' = f.oldS   \* container() restore (+ D6 repair)
                                     /\ ctx' = SubSeq(ctx, 1, Len(ctx) - 1)
                                     /\ UNCHANGED <<suppress, tight, lines>>
                  [] f.kind = "L" -> /\ tight' = f.oldTight /\ prefix' = second
                                     /\ UNCHANGED <<second, suppress, lines, ctx>>
          /\ skip' = (IF Fixed /\ stack[Len(stack)].kind = "Q" THEN FALSE ELSE skip) /\ Adv
Finish == /\ mode = "render" /\ k > Len(toks) /\ mode' = "done"
          /\ UNCHANGED <<toks, open, k, prefix, second, suppress, skip, tight, stack, ctx, lines>>
RenderStep == mode = "render" /\ k <= Len(toks) /\ (RPara \/ RHead \/ RBlank \/ RCode \/ RTable \/ RRule \/ RQuoteIn \/ RListIn \/ RItemIn \/ RClose)
Next == Build \/ StartRender \/ RenderStep \/ Finish
Spec == Init /\ [][Next]_vars

\* ---------- line discipline ----------
RECURSIVE LastQ(_)
LastQ(p) == IF p = <<>> THEN 0 ELSE IF p[Len(p)] = "Q" THEN Len(p) ELSE LastQ(SubSeq(p, 1, Len(p) - 1))
Cont(e) == [j \in 1..Len(e) |-> IF e[j] = "B" THEN "I" ELSE e[j]]
LineOK(l) == IF l.b = "blank"
               THEN \E n \in LastQ(Cont(l.exp))..Len(l.exp) : l.p = SubSeq(Cont(l.exp), 1, n)
               ELSE l.p = l.exp
PrefixOK == \A j \in 1..Len(lines) : LineOK(lines[j])
Report == (mode = "done" /\ ~PrefixOK) => PrintT(<<"MV", toks>>)
=====================================================================
