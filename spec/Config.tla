------------------------------- MODULE Config -------------------------------
(* Configuration precedence (C16): explicit flag > nearest config file > built-in default; --auto fixes the
   formatting switches.  Two families of points, both finite and explored completely:

   fam = "merge":  two distinct settings s1, s2, each with a flag state and a config state, and --auto or not.
        flag \in {"absent", "given_default", "given_other"}  (given_default: passed with its default value; only
              possible for valued flags), cfg \in {"unset", "set", "setdef"} (set = a non-default value; for the switches that
              --auto locks the config sets the opposite of the preset when --auto is on; setdef = the file spells out the
              default value, which must still lose against an explicit flag).
        The machine mirrors cli._parse_args + merge_cli_with_config: Parse records explicit flags, MergeField(s)
        applies the config value unless the flag is explicit or --auto locks the field.
        Effective(s) \in {"default", "flagval", "cfgval", "preset"} names where the value comes from.
   fam = "locate": a chain of three directories (cwd, parent, grandparent), each holding any subset of
        {.flowmark.toml, flowmark.toml, pyproject.toml with table, pyproject.toml without table}; Search walks up;
        Chosen is <<depth, kind>> of the file used (or none).  *)
EXTENDS Naturals, Sequences, FiniteSets, TLC, Json
CONSTANTS Settings, Valued, AutoLocked, Mutant, DoDump
VARIABLES fam, p, pc, explicit, eff, chosen
vars == <<fam, p, pc, explicit, eff, chosen>>

FlagStates(s) == IF s \in Valued THEN {"absent", "given_default", "given_other"} ELSE {"absent", "given_other"}
Kinds == {"dot", "plain", "pyp_with", "pyp_without"}
Prio == <<"dot", "plain", "pyp_with">>

MergePoints == {[s1 |-> a, f1 |-> fa, c1 |-> ca, s2 |-> b, f2 |-> fb, c2 |-> cb, auto |-> au] :
                  a \in Settings, b \in Settings, fa \in {"absent", "given_default", "given_other"},
                  fb \in {"absent", "given_default", "given_other"}, ca \in {"unset", "set", "setdef"}, cb \in {"unset", "set", "setdef"}, au \in BOOLEAN}
Init == /\ \/ /\ fam = "merge" /\ p \in {q \in MergePoints : q.s1 # q.s2 /\ q.f1 \in FlagStates(q.s1) /\ q.f2 \in FlagStates(q.s2)}
           \/ /\ fam = "locate" /\ p \in [0..2 -> SUBSET Kinds]
        /\ pc = "parse" /\ explicit = {} /\ eff = <<>> /\ chosen = <<>>

\* ---------------- merge family ----------------
FlagOf(s) == IF s = p.s1 THEN p.f1 ELSE IF s = p.s2 THEN p.f2 ELSE "absent"
CfgOf(s) == IF s = p.s1 THEN p.c1 ELSE IF s = p.s2 THEN p.c2 ELSE "unset"
Parse == /\ fam = "merge" /\ pc = "parse"
         /\ explicit' = {s \in {p.s1, p.s2} : FlagOf(s) # "absent" /\ ~(Mutant = "compare_with_default" /\ FlagOf(s) = "given_default")
                                              /\ ~(Mutant = "width_untracked" /\ s = "width")}
         /\ eff' = [s \in {p.s1, p.s2} |-> IF FlagOf(s) = "given_other" THEN "flagval"
                                           ELSE IF p.auto /\ s \in AutoLocked THEN "preset" ELSE "default"]
         /\ pc' = "merge" /\ UNCHANGED <<fam, p, chosen>>
\* merge_cli_with_config: one loop over the config fields (both fields in one step: they are independent)
MergeOne(s, cur) == IF CfgOf(s) = "unset" THEN cur
                    ELSE IF s \in explicit THEN cur
                    ELSE IF p.auto /\ s \in AutoLocked /\ Mutant # "auto_not_locked" THEN cur
                    ELSE IF CfgOf(s) = "setdef" THEN "default"          \* the config file spells out the default value
                    ELSE "cfgval"
Merge == /\ fam = "merge" /\ pc = "merge"
         /\ eff' = [s \in {p.s1, p.s2} |-> MergeOne(s, eff[s])]
         /\ pc' = "done" /\ UNCHANGED <<fam, p, explicit, chosen>>
\* the specification of precedence, written independently of the machine
Effective(s) == IF FlagOf(s) = "given_other" THEN "flagval"
                ELSE IF FlagOf(s) = "given_default" THEN "default"
                ELSE IF p.auto /\ s \in AutoLocked THEN "preset"
                ELSE IF CfgOf(s) = "set" THEN "cfgval" ELSE "default"      \* "setdef": the file sets the default value itself
Precedence == (fam = "merge" /\ pc = "done") => \A s \in {p.s1, p.s2} : eff[s] = Effective(s)

\* ---------------- locate family ----------------
Usable(d) == {k \in p[d] : k # "pyp_without"}
Best(d) == IF "dot" \in Usable(d) THEN "dot" ELSE IF "plain" \in Usable(d) THEN "plain" ELSE "pyp_with"
RECURSIVE SearchFrom(_)
SearchFrom(d) == IF d > 2 THEN <<>>
                 ELSE IF Usable(d) # {} THEN <<d, Best(d)>>
                 ELSE SearchFrom(d + 1)
Search == /\ fam = "locate" /\ pc = "parse"
          /\ chosen' = IF Mutant = "plain_before_dot" /\ SearchFrom(0) # <<>> /\ {"dot", "plain"} \subseteq p[SearchFrom(0)[1]]
                       THEN <<SearchFrom(0)[1], "plain">> ELSE SearchFrom(0)
          /\ pc' = "done" /\ UNCHANGED <<fam, p, explicit, eff>>
\* specification: nearest directory first, then .flowmark.toml > flowmark.toml > pyproject with table
Nearest == {d \in 0..2 : Usable(d) # {} /\ \A e \in 0..(d - 1) : Usable(e) = {}}
Located == (fam = "locate" /\ pc = "done") =>
              IF Nearest = {} THEN chosen = <<>>
              ELSE LET d == CHOOSE x \in Nearest : TRUE
                   IN chosen = <<d, CHOOSE k \in Usable(d) : \A j \in Usable(d) :
                                      (CHOOSE i \in 1..3 : Prio[i] = k) <= (CHOOSE i \in 1..3 : Prio[i] = j)>>

Next == Parse \/ Merge \/ Search
Spec == Init /\ [][Next]_vars
Dump == (pc = "done" /\ DoDump) =>
          PrintT(ToJson(IF fam = "merge" THEN <<"M", p, eff>> ELSE <<"L", [d \in 0..2 |-> [k \in Kinds |-> k \in p[d]]], chosen>>))
=============================================================================
