-------------------------------- MODULE Code --------------------------------
(* Code block emission (C04): MarkdownNormalizer._render_code with _min_fence_length.
   A code block is [fc |-> fence character "`" or "~", fl |-> authored fence length (0 = indented code block),
   info |-> "none" | "lang" | "lang+extra", lines |-> Seq(kind)] inside a container path given by the first-line and
   continuation prefixes (marker sequences: "Q" = '> ', "B" = '- ', "I" = two spaces, "F" = four spaces).
   Content line kinds: "plain", "blank", "ind" (leading spaces), "q" (looks like a quote prefix '> x'), "b" (looks like
   a list item '- x'), and fence look-alikes "t3" "t4" "t5" (3/4/5 backticks) and "w3" "w4" (3/4 tildes), "t3x" (three
   backticks followed by text: not a closing fence but counted by the code), "s3" / "sw3" (three backticks / tildes indented by
   1-3 spaces: CommonMark accepts a closing fence indented up to 3 spaces), "s3i" (a backtick fence run behind ONE space that is
   harmless in the source only because the whole fenced block is written 3 spaces to the right -- the parser removes that indent, the
   renderer writes the block unindented, and the line becomes a closing-fence candidate; always legal).
   The machine emits one line per action: Open, Content(i), Close.  Properties:
     ContentVerbatim  -- the emitted content lines are the authored lines, in order, each behind the continuation prefix,
     BlankNoTrailing  -- an empty content line carries the right-stripped prefix (no trailing spaces),
     FenceAdequate    -- the fence is strictly longer than every content line that is nothing but a run of its character,
                         so no content line can close the block (the machine, like the code, also counts "t3x" lines: more than needed),
     FenceKept        -- fence character kept; length never shorter than authored. *)
EXTENDS Naturals, Sequences, FiniteSets, TLC, Json
CONSTANTS MaxLines, Kinds, Paths, TrimTrailingBlank, DoDump
VARIABLES blk, path, i, outl, pc
vars == <<blk, path, i, outl, pc>>

PathDef(p) == CASE p = "top" -> [pre |-> <<>>, sec |-> <<>>]
                [] p = "bullet" -> [pre |-> <<"B">>, sec |-> <<"I">>]
                [] p = "quote" -> [pre |-> <<"Q">>, sec |-> <<"Q">>]
                [] p = "bullet>quote" -> [pre |-> <<"B", "Q">>, sec |-> <<"I", "Q">>]
                [] p = "quote>bullet" -> [pre |-> <<"Q", "B">>, sec |-> <<"Q", "I">>]
                [] p = "footnote" -> [pre |-> <<"F">>, sec |-> <<"F">>]
Blocks == [fc : {"`", "~"}, fl : {0, 3, 4}, info : {"none", "lang", "lang+extra"},
           lines : UNION {[1..n -> Kinds] : n \in 0..MaxLines}]
Legal(b) == /\ (b.fl = 0 => b.fc = "`" /\ b.info = "none" /\ b.lines # <<>> /\ b.lines[1] # "blank" /\ b.lines[Len(b.lines)] # "blank")
            \* the authored block must itself be well formed: no content line closes it early
            /\ \A j \in 1..Len(b.lines) : ~(b.fl > 0 /\ b.fl <= 3 /\ ((b.fc = "`" /\ b.lines[j] = "s3") \/ (b.fc = "~" /\ b.lines[j] = "sw3")))
            /\ \A j \in 1..Len(b.lines) : ~(b.fl > 0 /\ b.fc = "`" /\ ((b.lines[j] = "t3" /\ b.fl <= 3) \/ (b.lines[j] = "t4" /\ b.fl <= 4) \/ b.lines[j] = "t5"))
            /\ \A j \in 1..Len(b.lines) : ~(b.fl > 0 /\ b.fc = "~" /\ ((b.lines[j] = "w3" /\ b.fl <= 3) \/ (b.lines[j] = "w4" /\ b.fl <= 4)))
Run(kind, fc) == CASE kind \in {"t3", "t3x", "s3", "s3i"} /\ fc = "`" -> 3 [] kind = "sw3" /\ fc = "~" -> 3 [] kind = "t4" /\ fc = "`" -> 4 [] kind = "t5" /\ fc = "`" -> 5
                   [] kind = "w3" /\ fc = "~" -> 3 [] kind = "w4" /\ fc = "~" -> 4 [] OTHER -> 0
\* a content line can close the block only if it is NOTHING BUT a fence run (CommonMark: a closing fence carries no info string):
\* "t3x" (three backticks followed by text) is counted by the implementation's _min_fence_length but is no danger to the block
RunClose(kind, fc) == IF kind = "t3x" THEN 0 ELSE Run(kind, fc)
Max(S) == IF S = {} THEN 0 ELSE CHOOSE x \in S : \A y \in S : y <= x
\* rstrip("\n") on the content drops trailing blank lines (finding D26) unless TrimTrailingBlank = FALSE
RECURSIVE DropTrailingBlank(_)
DropTrailingBlank(ls) == IF ls # <<>> /\ ls[Len(ls)] = "blank" THEN DropTrailingBlank(SubSeq(ls, 1, Len(ls) - 1)) ELSE ls
Content == IF TrimTrailingBlank THEN DropTrailingBlank(blk.lines) ELSE blk.lines
MinFence == LET m == Max({Run(Content[j], blk.fc) : j \in 1..Len(Content)}) IN IF m + 1 > 3 THEN m + 1 ELSE 3
OutLen == IF (IF blk.fl = 0 THEN 3 ELSE blk.fl) > MinFence THEN (IF blk.fl = 0 THEN 3 ELSE blk.fl) ELSE MinFence
RECURSIVE RStripSp(_)
RStripSp(p) == IF p # <<>> /\ p[Len(p)] \in {"I", "F"} THEN RStripSp(SubSeq(p, 1, Len(p) - 1)) ELSE p

Init == /\ blk \in {b \in Blocks : Legal(b)} /\ path \in Paths /\ i = 0 /\ outl = <<>> /\ pc = "open"
Open == /\ pc = "open" /\ outl' = <<[p |-> PathDef(path).pre, k |-> "fence", n |-> OutLen, c |-> blk.fc, info |-> blk.info]>>
        /\ i' = 1 /\ pc' = "content" /\ UNCHANGED <<blk, path>>
ContentLine == /\ pc = "content" /\ i <= Len(Content)
               /\ outl' = Append(outl, [p |-> IF Content[i] = "blank" THEN RStripSp(PathDef(path).sec) ELSE PathDef(path).sec,
                                        k |-> Content[i], n |-> 0, c |-> "", info |-> ""])
               /\ i' = i + 1 /\ UNCHANGED <<blk, path, pc>>
Close == /\ pc = "content" /\ i > Len(Content)
         /\ outl' = Append(outl, [p |-> PathDef(path).sec, k |-> "fence", n |-> OutLen, c |-> blk.fc, info |-> ""])
         /\ pc' = "done" /\ UNCHANGED <<blk, path, i>>
Next == Open \/ ContentLine \/ Close
Spec == Init /\ [][Next]_vars
Done == pc = "done"

Emitted == [j \in 1..(Len(outl) - 2) |-> outl[j + 1].k]
ContentVerbatim == Done => Emitted = blk.lines
ContentVerbatimK == Done => Emitted = DropTrailingBlank(blk.lines)         \* with the D26 carve-out
BlankNoTrailing == \A j \in 1..Len(outl) : outl[j].k = "blank" => (outl[j].p = <<>> \/ outl[j].p[Len(outl[j].p)] \notin {"I", "F"})
FenceAdequate == Done => \A j \in 2..(Len(outl) - 1) : RunClose(outl[j].k, blk.fc) < OutLen
FenceKept == Done => outl[1].c = blk.fc /\ outl[1].n >= blk.fl /\ outl[Len(outl)].n = outl[1].n /\ outl[1].info = blk.info
Dump == (Done /\ DoDump) => PrintT(ToJson(<<"K", blk, path, outl>>))
=============================================================================
