------------------------------ MODULE DocTrace ------------------------------
(* Validation of document-level observations (leg C of C01, C02, C10 ...).
   Trace: [id, fam, toks, lines, tm_in, tm_out, ti_in, ti_out, use_i, idem, first]
     toks    = real token stream of the input (marko AST, family S alphabet; <<>> for other families),
     lines   = output lines abstracted to [p |-> markers, b |-> body class] (family S),
     tm_* / ti_* = preorder node strings of the normalised trees read by marko / markdown-it from input and output,
     use_i   = the markdown-it projection applies (no construct it lacks),  idem = f(f(x)) = f(x) bytewise,
     first   = per output line [k, e]: kind of its first word ("p" plain, "h" marker in the escape set, "x" other
               structure-starting word, "" unknown) and whether it carries a protecting backslash (family T).
   The renderer machine (Render) is run on `toks`; decided per trace:
     acc      -- the machine's lines equal the observed lines (drift if not),
     SameM / SameI -- C01's verdict: the output reads as the same document (both parsers),
     RoundTrip -- Read(observed lines) = toks: the block structure survives, decided by the Reader model,
     PrefixOK, HazardOK -- diagnostics naming the clause. *)
EXTENDS RenderRead, IOUtils
Traces == JsonDeserialize(IOEnv.TRACE_FILE)
VARIABLE tid
TR == Traces[tid]
IsS == TR.fam = "S"
TraceInit == /\ tid \in 1..Len(Traces)
             /\ toks = (IF Traces[tid].fam = "S" THEN Traces[tid].toks ELSE <<"P">>) /\ open = <<>> /\ mode = "render" /\ k = 1
             /\ prefix = <<>> /\ second = <<>> /\ suppress = TRUE /\ skip = FALSE /\ tight = FALSE
             /\ stack = <<>> /\ ctx = <<>> /\ lines = <<>>
TraceNext == (RenderStep \/ Finish) /\ UNCHANGED tid
TraceSpec == TraceInit /\ [][TraceNext]_<<vars, tid>>
FirstDiff(a, b) == IF a = b THEN 0
                   ELSE IF \E j \in 1..Len(a) : j > Len(b) \/ a[j] # b[j]
                        THEN CHOOSE j \in 1..Len(a) : (j > Len(b) \/ a[j] # b[j]) /\ \A m \in 1..(j - 1) : m <= Len(b) /\ a[m] = b[m]
                        ELSE Len(a) + 1
ObsRead == Read(TR.lines)
HazardOK == \A j \in 2..Len(TR.first) : TR.first[j].k \in {"h", "x"} => TR.first[j].e
TraceReport == mode = "done" =>
   PrintT(ToJson(<<"R", TR.id,
                   IF IsS THEN LinesPB = TR.lines ELSE TRUE,
                   FirstDiff(TR.tm_in, TR.tm_out), IF TR.use_i THEN FirstDiff(TR.ti_in, TR.ti_out) ELSE 0, TR.idem,
                   IF IsS THEN ObsRead.toks = NoB(toks) /\ ObsRead.loose = Looseness(toks) ELSE TRUE,
                   IF IsS THEN PrefixOK ELSE TRUE, HazardOK>>))
=============================================================================
