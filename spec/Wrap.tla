------------------------------- MODULE Wrap -------------------------------
(* Greedy fill: text_wrapping.wrap_paragraph_lines as a machine, one action per loop iteration.
   Implementation-shaped on purpose: Break with an empty current line does NOT emit a line and
   restarts the column at `so` (subsequent_offset) exactly like the code (finding D13 lives there).

   A word is [k |-> kind, n |-> length]:
     "p" plain word                         "h" lone bullet/heading/quote marker (-, +, *, #, >)  len 1
     "n" ordered-list numeral ("1.", "1)")  len 2     "a" atomic construct with an inner space (code span,
     link, template tag ...) of length n -- one token for the splitter although it contains a space.
   With md (is_markdown) a word of kind h/n that starts a continuation line is escaped (+1 column). *)
EXTENDS Integers, Sequences, FiniteSets, TLC, Json
CONSTANTS MaxWords, Lens, Kinds, Widths, Offs, Mds, DoDump
VARIABLES words, width, ic, so, md, i, cur, curw, first, lines, pc
vars == <<words, width, ic, so, md, i, cur, curw, first, lines, pc>>

WordSet == {[k |-> "p", n |-> l] : l \in Lens}
           \cup (IF "h" \in Kinds THEN {[k |-> "h", n |-> 1]} ELSE {})
           \cup (IF "n" \in Kinds THEN {[k |-> "n", n |-> 2]} ELSE {})
           \cup (IF "a" \in Kinds THEN {[k |-> "a", n |-> 5]} ELSE {})
WordSeqs == UNION {[1..m -> WordSet] : m \in 0..MaxWords}

Escapable(w) == w.k \in {"h", "n"}
W(j) == words[j].n

Init == /\ words \in WordSeqs /\ width \in Widths /\ ic \in Offs /\ so \in Offs /\ md \in Mds
        /\ i = 1 /\ cur = <<>> /\ curw = ic /\ first = TRUE /\ lines = <<>>
        /\ pc = IF width <= 0 THEN "nowrap" ELSE "loop"

Space == IF cur = <<>> THEN 0 ELSE 1
Fits == curw + W(i) + Space <= width

Place == /\ pc = "loop" /\ i <= Len(words) /\ Fits
         /\ cur' = Append(cur, [w |-> i, e |-> FALSE]) /\ curw' = curw + W(i) + Space
         /\ i' = i + 1 /\ UNCHANGED <<words, width, ic, so, md, first, lines, pc>>

Break == /\ pc = "loop" /\ i <= Len(words) /\ ~Fits
         /\ IF cur # <<>> THEN lines' = Append(lines, cur) /\ first' = FALSE
                          ELSE UNCHANGED <<lines, first>>
         /\ LET esc == md /\ ~first' /\ Escapable(words[i])
            IN /\ cur' = <<[w |-> i, e |-> esc]>>
               /\ curw' = so + W(i) + (IF esc THEN 1 ELSE 0)   \* quirk: restarts at so even if no line was emitted
         /\ i' = i + 1 /\ UNCHANGED <<words, width, ic, so, md, pc>>

Finish == /\ pc = "loop" /\ i > Len(words)
          /\ lines' = IF cur # <<>> THEN Append(lines, cur) ELSE lines
          /\ pc' = "done" /\ UNCHANGED <<words, width, ic, so, md, i, cur, curw, first>>

NoWrap == /\ pc = "nowrap"
          /\ lines' = IF words = <<>> THEN <<>> ELSE <<[j \in 1..Len(words) |-> [w |-> j, e |-> FALSE]]>>
          /\ pc' = "done" /\ UNCHANGED <<words, width, ic, so, md, i, cur, curw, first>>

Next == Place \/ Break \/ Finish \/ NoWrap
Spec == Init /\ [][Next]_vars

---------------------------------------------------------------------------
\* property-level predicates over the final `lines` (the same ones WrapTrace evaluates on real output)
ELen(t) == W(t.w) + (IF t.e THEN 1 ELSE 0)
RECURSIVE SumLen(_)
SumLen(l) == IF l = <<>> THEN 0 ELSE ELen(Head(l)) + SumLen(Tail(l))
LineLen(l) == SumLen(l) + Len(l) - 1
Off(j) == IF j = 1 THEN ic ELSE so
RECURSIVE Flat(_)
Flat(ls) == IF ls = <<>> THEN <<>> ELSE [j \in 1..Len(Head(ls)) |-> Head(ls)[j].w] \o Flat(Tail(ls))

Done == pc = "done"
Lossless == Done => Flat(lines) = [j \in 1..Len(words) |-> j]
NoEmptyLine == Done => \A j \in 1..Len(lines) : lines[j] # <<>>
Bounded == \A j \in 1..Len(lines) : Off(j) + LineLen(lines[j]) <= width \/ Len(lines[j]) = 1
Maximal == \A j \in 1..(Len(lines) - 1) : Off(j) + LineLen(lines[j]) + 1 + W(lines[j+1][1].w) > width
OneLine == Done /\ width <= 0 => Len(lines) <= 1
\* a hazard word that starts a continuation line is escaped (markdown mode), and nothing else is
EscapeExact == Done => \A j \in 1..Len(lines) : \A t \in 1..Len(lines[j]) :
                  lines[j][t].e = (md /\ j > 1 /\ t = 1 /\ Escapable(words[lines[j][t].w]) /\ width > 0)

\* D13 trigger: the first word does not fit after the initial column
Trig13 == words # <<>> /\ width > 0 /\ ic + W(1) > width
BoundedK == Done /\ width > 0 => (Trig13 \/ Bounded)
MaximalK == Done /\ width > 0 => (Trig13 \/ Maximal)
\* with the trigger, only line 1 (the line whose column was mis-tracked) may be over-long / under-filled
Bounded13 == Done /\ width > 0 /\ Trig13 =>
                \A j \in 2..Len(lines) : Off(j) + LineLen(lines[j]) <= width \/ Len(lines[j]) = 1
Maximal13 == Done /\ width > 0 /\ Trig13 =>
                \A j \in 2..(Len(lines) - 1) : Off(j) + LineLen(lines[j]) + 1 + W(lines[j+1][1].w) > width

Dump == (Done /\ DoDump) =>
          PrintT(ToJson(<<"B", words, width, ic, so, md, lines,
                          IF width > 0 THEN Bounded ELSE TRUE, IF width > 0 THEN Maximal ELSE TRUE>>))
===========================================================================
