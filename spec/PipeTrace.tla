----------------------------- MODULE PipeTrace -----------------------------
(* Validation of observed formatting calls (leg C of C12).
   Trace: [id, o, stages, outcome, flags]   o as in Pipeline; stages = the stage functions the real call entered, in order (<<>> if
   not recorded for this call); outcome \in {"return", "raise", "timeout"};
   flags = [is_str, ends_nl, no_new_control, no_placeholder, code_blank_clean] measured on the returned value.
   Decided: the call is a behaviour of Pipeline (it returns; recorded stages equal the machine's) and the result is WellFormed. *)
EXTENDS Pipeline, IOUtils
Traces == JsonDeserialize(IOEnv.TRACE_FILE)
VARIABLE tid
TR == Traces[tid]
TraceInit == tid \in 1..Len(Traces) /\ o = Traces[tid].o /\ pc = "call" /\ done = <<>>
TraceSpec == TraceInit /\ [][Next /\ UNCHANGED tid]_<<vars, tid>>
WellFormed == TR.flags.is_str /\ (~o.plaintext => TR.flags.ends_nl) /\ TR.flags.no_new_control /\ TR.flags.no_placeholder /\ TR.flags.code_blank_clean
TraceReport == pc = "returned" => PrintT(ToJson(<<"R", TR.id, TR.outcome = "return", TR.stages = <<>> \/ TR.stages = done,
                                                 IF TR.outcome = "return" THEN WellFormed ELSE FALSE>>))
=============================================================================
