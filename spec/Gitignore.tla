---------------------------- MODULE Gitignore ----------------------------
(* gitignore semantics over a small universe. Names are atoms [stem, ext]; directories have ext "".
   Pattern = [neg, anch, dir, segs]; seg \in {"a","b","d","e" (literal stems), "*", "*.md", "?.md", "**", "a.md","b.md"} *)
EXTENDS Naturals, Sequences, FiniteSets, TLC, Json
CONSTANTS PatIds, MaxLines, DoDump
Pats == <<
  [neg |-> FALSE, anch |-> FALSE, dir |-> FALSE, segs |-> <<"a.md">>],      \* 1  a.md
  [neg |-> FALSE, anch |-> TRUE,  dir |-> FALSE, segs |-> <<"a.md">>],      \* 2  /a.md
  [neg |-> FALSE, anch |-> TRUE,  dir |-> FALSE, segs |-> <<"d", "a.md">>], \* 3  d/a.md
  [neg |-> FALSE, anch |-> FALSE, dir |-> TRUE,  segs |-> <<"d">>],         \* 4  d/
  [neg |-> FALSE, anch |-> FALSE, dir |-> TRUE,  segs |-> <<"e">>],         \* 5  e/
  [neg |-> FALSE, anch |-> TRUE,  dir |-> TRUE,  segs |-> <<"e">>],         \* 6  /e/
  [neg |-> FALSE, anch |-> FALSE, dir |-> FALSE, segs |-> <<"*.md">>],      \* 7  *.md
  [neg |-> FALSE, anch |-> TRUE,  dir |-> FALSE, segs |-> <<"d", "*.md">>], \* 8  d/*.md
  [neg |-> FALSE, anch |-> TRUE,  dir |-> FALSE, segs |-> <<"**", "a.md">>],\* 9  **/a.md
  [neg |-> FALSE, anch |-> TRUE,  dir |-> FALSE, segs |-> <<"d", "**">>],   \* 10 d/**
  [neg |-> FALSE, anch |-> FALSE, dir |-> FALSE, segs |-> <<"?.md">>],      \* 11 ?.md
  [neg |-> TRUE,  anch |-> FALSE, dir |-> FALSE, segs |-> <<"a.md">>],      \* 12 !a.md
  [neg |-> FALSE, anch |-> TRUE,  dir |-> FALSE, segs |-> <<"d", "e">>],    \* 13 d/e
  [neg |-> FALSE, anch |-> FALSE, dir |-> FALSE, segs |-> <<"e">>],         \* 14 e
  [neg |-> TRUE,  anch |-> TRUE,  dir |-> FALSE, segs |-> <<"d", "a.md">>], \* 15 !d/a.md
  [neg |-> FALSE, anch |-> TRUE,  dir |-> FALSE, segs |-> <<"d", "*">>],    \* 16 d/*
  [neg |-> TRUE,  anch |-> TRUE,  dir |-> FALSE, segs |-> <<"a.md">>],      \* 17 !/a.md
  [neg |-> TRUE,  anch |-> FALSE, dir |-> TRUE,  segs |-> <<"e">>],         \* 18 !e/   (a negated directory pattern re-includes the directory)
  [neg |-> TRUE,  anch |-> FALSE, dir |-> TRUE,  segs |-> <<"d">>],         \* 19 !d/
  [neg |-> TRUE,  anch |-> FALSE, dir |-> FALSE, segs |-> <<"e">>],         \* 20 !e    (negated, matches the directory and nothing below it)
  [neg |-> FALSE, anch |-> TRUE,  dir |-> FALSE, segs |-> <<"e", "a.md">>], \* 21 e/a.md (a slash in the middle anchors the pattern)
  [neg |-> FALSE, anch |-> TRUE,  dir |-> FALSE, segs |-> <<"*", "a.md">>], \* 22 */a.md (one level, not any)
  [neg |-> TRUE,  anch |-> FALSE, dir |-> FALSE, segs |-> <<"*.md">>],      \* 23 !*.md
  [neg |-> FALSE, anch |-> TRUE,  dir |-> TRUE,  segs |-> <<"**", "e">>],   \* 24 **/e/
  [neg |-> TRUE,  anch |-> TRUE,  dir |-> TRUE,  segs |-> <<"d", "e">>],    \* 25 !d/e/
  [neg |-> TRUE,  anch |-> FALSE, dir |-> FALSE, segs |-> <<"*">>],         \* 26 !*    (matches every entry itself: files and directories at any depth)
  [neg |-> FALSE, anch |-> FALSE, dir |-> FALSE, segs |-> <<"*">>],         \* 27 *
  [neg |-> TRUE,  anch |-> FALSE, dir |-> TRUE,  segs |-> <<"*">>],         \* 28 !*/   (every directory)
  [neg |-> FALSE, anch |-> FALSE, dir |-> TRUE,  segs |-> <<"*">>]          \* 29 */
>>
Text == <<"a.md", "/a.md", "d/a.md", "d/", "e/", "/e/", "*.md", "d/*.md", "**/a.md", "d/**", "?.md", "!a.md", "d/e", "e", "!d/a.md", "d/*", "!/a.md", "!e/", "!d/", "!e", "e/a.md", "*/a.md", "!*.md", "**/e/", "!d/e/", "!*", "*", "!*/", "*/">>
\* universe: files as paths (seq of names), all directories implied
Files == { <<"a.md">>, <<"b.md">>, <<"d", "a.md">>, <<"d", "b.md">>, <<"d", "e", "a.md">>, <<"d", "e", "b.md">>, <<"e", "a.md">> }
IgnoreDirs == { <<>>, <<"d">> }            \* directories that may hold a .gitignore
VARIABLES gi, pc
SeqsUpTo(S, n) == UNION {[1..k -> S] : k \in 0..n}
Init == gi \in [IgnoreDirs -> SeqsUpTo(PatIds, MaxLines)] /\ pc = "start"

SegMatch(seg, name) ==
  CASE seg = "*" -> TRUE
    [] seg = "*.md" -> name \in {"a.md", "b.md"}
    [] seg = "?.md" -> name \in {"a.md", "b.md"}
    [] OTHER -> seg = name
RECURSIVE SegsMatch(_, _)
SegsMatch(segs, path) ==
  IF segs = <<>> THEN path = <<>>
  ELSE IF Head(segs) = "**"
       THEN IF Len(segs) = 1 THEN path # <<>>          \* trailing /** : everything inside
            ELSE \E k \in 0..Len(path) : SegsMatch(Tail(segs), SubSeq(path, k + 1, Len(path)))
       ELSE path # <<>> /\ SegMatch(Head(segs), Head(path)) /\ SegsMatch(Tail(segs), Tail(path))
\* does pattern p (from a .gitignore in directory `base`) match entry `path` (relative to base), isDir?
PatMatch(p, path, isDir) ==
  /\ (p.dir => isDir)
  /\ IF ~p.anch /\ Len(p.segs) = 1 THEN path # <<>> /\ SegMatch(p.segs[1], path[Len(path)])
     ELSE SegsMatch(p.segs, path)
\* decision of one file's lines for an entry: "ign", "inc" or "none" (last matching line wins)
RECURSIVE Decide(_, _, _, _)
Decide(lines, k, path, isDir) ==
  IF k = 0 THEN "none"
  ELSE LET p == Pats[lines[k]] IN
       IF PatMatch(p, path, isDir) THEN (IF p.neg THEN "inc" ELSE "ign") ELSE Decide(lines, k - 1, path, isDir)
IsPrefix(a, b) == Len(a) <= Len(b) /\ SubSeq(b, 1, Len(a)) = a
\* entry excluded? deepest .gitignore that has an opinion wins
EntryIgnored(path, isDir) ==
  LET bases == {b \in IgnoreDirs : IsPrefix(b, SubSeq(path, 1, Len(path) - 1))}
      opinion(b) == Decide(gi[b], Len(gi[b]), SubSeq(path, Len(b) + 1, Len(path)), isDir)
      having == {b \in bases : opinion(b) # "none"}
  IN IF having = {} THEN FALSE
     ELSE LET deepest == CHOOSE b \in having : \A c \in having : Len(c) <= Len(b) IN opinion(deepest) = "ign"
\* a file is ignored iff some ancestor directory is excluded (no re-inclusion below) or the file itself is
Ignored(f) == \/ \E k \in 1..(Len(f) - 1) : EntryIgnored(SubSeq(f, 1, k), TRUE)
              \/ EntryIgnored(f, FALSE)
Next == pc = "start" /\ pc' = "done" /\ UNCHANGED gi
Spec == Init /\ [][Next]_<<gi, pc>>
Listed == {f \in Files : ~Ignored(f)}
FileSeq == << <<"a.md">>, <<"b.md">>, <<"d", "a.md">>, <<"d", "b.md">>, <<"d", "e", "a.md">>, <<"d", "e", "b.md">>, <<"e", "a.md">> >>
ListedVec == [i \in 1..Len(FileSeq) |-> ~Ignored(FileSeq[i])]
\* sanity of the chain semantics: a file below an ignored directory is never listed; without patterns everything is
NoReinclusionBelowIgnoredDir == \A f \in Files : (\E k \in 1..(Len(f) - 1) : EntryIgnored(SubSeq(f, 1, k), TRUE)) => Ignored(f)
EmptyMeansAll == (gi[<<>>] = <<>> /\ gi[<<"d">>] = <<>>) => Listed = Files
Report == (pc = "done" /\ DoDump) => PrintT(ToJson(<<"G", gi[<<>>], gi[<<"d">>], ListedVec>>))
=============================================================================
