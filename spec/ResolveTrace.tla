----------------------------- MODULE ResolveTrace -----------------------------
(* Validation of observed FileResolver.resolve / --list-files results (leg C of C17).
   Trace: [id, st, args, result, sorted_ok, abs_ok, nodup_ok, perm_same, cli_same]
     result = identities of the listed files (universe ids; 99 = the file outside the tree, 98 = the dangling
     link's would-be target, 97 = anything else); the *_ok flags are computed on the real list of paths;
     perm_same = the reversed argument list gives the same list; cli_same = `flowmark --list-files` prints the same.
   The machine of Resolve is stepped on (st, args); reported: machine result = observation (drift), and the
   declarative reading Must \subseteq result \subseteq Must \cup May, with the extra / missing files classified by
   the triggers of the known findings D18a/b/c. *)
EXTENDS Resolve, IOUtils
Traces == JsonDeserialize(IOEnv.TRACE_FILE)
VARIABLE tid
T == Traces[tid]
ToSet(s) == {s[i] : i \in 1..Len(s)}
TraceInit == /\ tid \in 1..Len(Traces) /\ st = Traces[tid].st /\ args = Traces[tid].args
             /\ k = 1 /\ seen = {} /\ result = {} /\ pc = "args"
TraceSpec == TraceInit /\ [][Next /\ UNCHANGED tid]_<<vars, tid>>
Obs == ToSet(T.result)
Missing == Must \ Obs
Extra == Obs \ (Must \cup May)
Report == Done => PrintT(ToJson(<<"R", T.id, result = Obs, Missing, Extra, Extra \cap D18a, Extra \cap D18b, Extra \cap D18c,
                                  T.sorted_ok /\ T.abs_ok /\ T.nodup_ok, T.perm_same, T.cli_same>>))
=============================================================================
