----------------------------- MODULE ConfigTrace -----------------------------
(* Validation of observed CLI behaviour under config files (leg C of C16).
   merge trace:  [id, fam, p, obs]   obs = the set (as a sequence) of source pairs <<src(s1), src(s2)>> whose concrete
                 values reproduce the observed formatting output AND the observed --list-files output
                 (sources: "default" | "flagval" | "cfgval" | "preset"; several pairs can fit when values coincide).
   locate trace: [id, fam, p, obs]   p = per directory depth the set of config file kinds present,
                 obs = the candidates <<depth, kind>> (or <<>> for the default) whose width reproduces the output.
   The machine of Config (Parse; Merge / Search) is stepped on the trace's point; verdict = the observation is
   consistent with Effective / Nearest-file as specified. *)
EXTENDS Config, IOUtils
Traces == JsonDeserialize(IOEnv.TRACE_FILE)
VARIABLE tid
tvars == <<vars, tid>>
T == Traces[tid]
ToSet(seq) == {seq[i] : i \in 1..Len(seq)}
TraceInit == /\ tid \in 1..Len(Traces) /\ fam = Traces[tid].fam
             /\ p = IF Traces[tid].fam = "merge" THEN Traces[tid].p
                    ELSE [d \in 0..2 |-> ToSet(Traces[tid].p[d + 1])]
             /\ pc = "parse" /\ explicit = {} /\ eff = <<>> /\ chosen = <<>>
TraceSpec == TraceInit /\ [][Next /\ UNCHANGED tid]_tvars
Consistent == IF fam = "merge" THEN <<Effective(p.s1), Effective(p.s2)>> \in ToSet(T.obs)
              ELSE chosen \in ToSet(T.obs)
MachineOK == IF fam = "merge" THEN Precedence ELSE Located
Report == pc = "done" => PrintT(ToJson(<<"R", T.id, MachineOK, Consistent,
                                         IF fam = "merge" THEN <<Effective(p.s1), Effective(p.s2)>> ELSE chosen>>))
=============================================================================
