------------------------------ MODULE LinkTrace ------------------------------
(* Validation of observed link formatting (leg C of the link family of C01 / C02 / C04).
   Trace: [id, c, obs, same_m, same_i, lit_same, idem]   obs = the output's construct abstracted to the pieces of LinkRender.outp.
   Decided: the machine emits exactly obs (drift otherwise); on obs alone Readable and Kept; the parsers' verdicts are carried along. *)
EXTENDS LinkRender, IOUtils
Traces == JsonDeserialize(IOEnv.TRACE_FILE)
VARIABLE tid
TR == Traces[tid]
TraceInit == /\ tid \in 1..Len(Traces) /\ c = Traces[tid].c /\ pc = "open" /\ outp = <<>>
TraceSpec == TraceInit /\ [][Next /\ UNCHANGED tid]_<<vars, tid>>
TraceReport == Done => PrintT(ToJson(<<"R", TR.id, outp = TR.obs, ReadableOn(TR.obs), KeptOn(TR.obs), TR.same_m, TR.same_i, TR.lit_same, TR.idem>>))
=============================================================================
