------------------------------ MODULE CodeTrace ------------------------------
(* Validation of observed code-block rendering (leg C of C04).
   Trace: [id, blk, path, obs, lit_same]   blk / path as in Code; obs = the output's code block abstracted to the line records
   of Code.outl ([p, k, n, c, info]); lit_same = the real parser reads the same (info, content) from input and output.
   Decided: the machine emits exactly obs (drift otherwise); on obs alone: content verbatim, blank lines without trailing
   spaces, fence adequate and kept. *)
EXTENDS Code, IOUtils
Traces == JsonDeserialize(IOEnv.TRACE_FILE)
VARIABLE tid
TR == Traces[tid]
TraceInit == /\ tid \in 1..Len(Traces) /\ blk = Traces[tid].blk /\ path = Traces[tid].path /\ i = 0 /\ outl = <<>> /\ pc = "open"
TraceSpec == TraceInit /\ [][Next /\ UNCHANGED tid]_<<vars, tid>>
O == TR.obs
OContent == [j \in 1..(Len(O) - 2) |-> O[j + 1].k]
OVerbatim == Len(O) >= 2 /\ OContent = blk.lines
OVerbatimK == Len(O) >= 2 /\ OContent = DropTrailingBlank(blk.lines)
OBlank == \A j \in 1..Len(O) : O[j].k = "blank" => (O[j].p = <<>> \/ O[j].p[Len(O[j].p)] \notin {"I", "F"})
OFence == Len(O) >= 2 /\ O[1].k = "fence" /\ O[Len(O)].k = "fence" /\ O[1].c = blk.fc /\ O[1].n >= blk.fl /\ O[Len(O)].n = O[1].n
          /\ O[1].info = blk.info /\ \A j \in 2..(Len(O) - 1) : RunClose(O[j].k, blk.fc) < O[1].n
OPrefix == Len(O) >= 1 /\ O[1].p = PathDef(path).pre /\ \A j \in 2..Len(O) : O[j].k # "blank" => O[j].p = PathDef(path).sec
TraceReport == Done => PrintT(ToJson(<<"R", TR.id, outl = O, OVerbatim, OVerbatimK, OBlank, OFence, OPrefix, TR.lit_same>>))
=============================================================================
