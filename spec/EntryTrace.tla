----------------------------- MODULE EntryTrace -----------------------------
(* Validation of observed entry-point executions (leg C of C15).
   Trace: [id, ep, u, ref, out, rc, fs_ok, side]
     ref  = digest id of reformat_text(probe, **Expected(u, ep)) (Expected taken from the EntryPoints model run),
     out  = digest id of the bytes the entry point produced (stdout, the in-place file, or the -o file),
     rc   = exit code (0 for API calls that returned), fs_ok = no file other than the intended target changed,
     side = for multi-file points: every file got exactly the result it would get alone.
   The machine of EntryPoints is stepped from the trace's point (argv/.../sink); acceptance = it reaches the sink
   (or the usage layer) the trace's entry point belongs to. *)
EXTENDS EntryPoints, IOUtils
Traces == JsonDeserialize(IOEnv.TRACE_FILE)
VARIABLE tid
tvars == <<vars, tid>>
T == Traces[tid]
TraceInit == /\ tid \in 1..Len(Traces)
             /\ u = Traces[tid].u /\ ep = Traces[tid].ep /\ o = Traces[tid].u
             /\ layer = IF Traces[tid].ep \in CliEPs THEN "argv" ELSE IF Traces[tid].ep = "api_files_inplace" THEN "files"
                        ELSE IF Traces[tid].ep = "api_text" THEN "text" ELSE "file"
TraceSpec == TraceInit /\ [][Next /\ UNCHANGED tid]_tvars
Agree == IF ep \in ErrEPs THEN T.rc # 0 /\ T.fs_ok
         ELSE T.rc = 0 /\ T.out = T.ref /\ T.fs_ok /\ T.side
Report == (AtSink \/ layer = "usage") => PrintT(ToJson(<<"R", T.id, SinkCorrect, Agree, T.rc, T.out = T.ref, T.fs_ok, T.side>>))
=============================================================================
