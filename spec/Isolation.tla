----------------------------- MODULE Isolation -----------------------------
(* Call isolation (C13).  Calls (threads) each run a formatting call of NSteps abstract steps (a step = a slice of
   the call between two function-call events of flowmark/marko code).  The scheduler runs exactly one thread at a
   time and may preempt at any step boundary, at most MaxPreempt times.
   Data flow is modelled by taint: every call owns its objects (parser, renderer, document, source); the set
   SharedSteps names steps that read-modify-write a cell shared by all calls (as-is: none -- _setup_extensions
   re-creates parser and renderer for every parse()/render(), flowmark_markdown() builds a fresh Markdown per
   call, the cached word splitter and the module-level default wrappers hold no state).
   taint[t] = calls whose data may have flowed into t's result;  Isolated: taint[t] = {t}.
   With SharedSteps # {} (the "module-level renderer / cached state" mutants) TLC produces the interleaving that
   leaks, which the harness replays against the real code.  `sched` is a history variable; schedules of complete
   runs are exported for replay. *)
EXTENDS Naturals, Sequences, FiniteSets, TLC, Json
CONSTANTS NThreads, NSteps, MaxPreempt, SharedSteps, DoDump
Threads == 1..NThreads
VARIABLES pc, last, preempt, cell, taint, sched
vars == <<pc, last, preempt, cell, taint, sched>>
view == <<pc, last, preempt, cell, taint>>

Init == /\ pc = [t \in Threads |-> 0] /\ last = 0 /\ preempt = 0
        /\ cell = {} /\ taint = [t \in Threads |-> {t}] /\ sched = <<>>

CanStep(t) == /\ pc[t] < NSteps
              /\ ((last # 0 /\ last # t /\ pc[last] < NSteps) => preempt < MaxPreempt)
Step(t) ==
  /\ pc[t] < NSteps
  /\ LET switch == last # 0 /\ last # t /\ pc[last] < NSteps IN
       /\ (switch => preempt < MaxPreempt)
       /\ preempt' = IF switch THEN preempt + 1 ELSE preempt
  /\ pc' = [pc EXCEPT ![t] = @ + 1] /\ last' = t /\ sched' = Append(sched, t)
  /\ IF (pc[t] + 1) \in SharedSteps
       THEN /\ taint' = [taint EXCEPT ![t] = @ \cup cell]     \* reads what others left in the shared cell
            /\ cell' = cell \cup taint[t]                     \* and leaves its own data there
       ELSE UNCHANGED <<cell, taint>>
Next == \E t \in Threads : Step(t)
Spec == Init /\ [][Next]_vars

Done == \A t \in Threads : pc[t] = NSteps
Isolated == \A t \in Threads : taint[t] = {t}
PreemptBound == preempt <= MaxPreempt
Dump == (Done /\ DoDump) => PrintT(ToJson(<<"SCHED", sched>>))
=============================================================================
