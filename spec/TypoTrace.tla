------------------------------ MODULE TypoTrace ------------------------------
(* Validation of observed typography rewrites (leg C of C08 and C09).
   kind "str":  [id, kind, s, t]   s = input symbols, t = symbols of the real function's result (smart_quotes or ellipses,
                by constant Machine).  Decided: the machine's result equals t (drift otherwise) and the property holds
                on (s, t) -- QuoteProp /\ TagsUntouched, or EllipsisProp /\ OnlyThreeDotRuns /\ idempotence (t2 = result of
                applying the real function to its own result).
   kind "doc":  [id, kind, len_off, len_on, nl_same, diffs]  an (option off, option on) pair of reformat_text outputs:
                diffs = every position where the two texts differ, as [c |-> class in off, d |-> class in on, prot |-> the
                position lies in a protected span of the off text, seg |-> number of the scope of the position].  Decided (C08): same length, same line breaks, every
                difference turns a straight quote into a curly quote of its family outside protected spans. *)
EXTENDS Typography, IOUtils
Traces == JsonDeserialize(IOEnv.TRACE_FILE)
VARIABLE tid
TR == Traces[tid]
TraceInit == /\ tid \in 1..Len(Traces) /\ inp = (IF Traces[tid].kind = "str" THEN Traces[tid].s ELSE <<>>) /\ out = <<>> /\ pc = "run"
TraceSpec == TraceInit /\ [][Next /\ UNCHANGED tid]_<<vars, tid>>
StrProp == IF Machine = "quotes" THEN QuoteProp(TR.s, TR.t) /\ TagsUntouched(TR.s, TR.t)
           ELSE EllipsisProp(TR.s, TR.t) /\ OnlyThreeDotRuns(TR.s, TR.t) /\ TR.t2 = TR.t
\* quotes are only paired within one paragraph: a converted opening quote and the next converted closing quote of its family lie in the
\* same scope (seg = number of the paragraph / heading / list item / table cell the position belongs to); the doc-level form of the third
\* conjunct of QuoteProp
Closer(d) == IF d = "L2" THEN "R2" ELSE "R1"
PairedInScope(ds) == \A i \in 1..Len(ds) : ds[i].d \in {"L2", "L1"} =>
                        /\ (TR.trunc \/ \E j \in (i + 1)..Len(ds) : ds[j].d = Closer(ds[i].d))            \* an opening quote is never converted alone
                        /\ \A j \in (i + 1)..Len(ds) : (ds[j].d = Closer(ds[i].d) /\ \A m \in (i + 1)..(j - 1) : ds[m].d # Closer(ds[i].d))
                                                        => ds[j].seg = ds[i].seg
DocProp == /\ TR.len_off = TR.len_on /\ TR.nl_same
           /\ \A i \in 1..Len(TR.diffs) : Family(TR.diffs[i].c, TR.diffs[i].d) /\ ~TR.diffs[i].prot
           /\ PairedInScope(TR.diffs)
\* kind "tree" (C09): [id, kind, a, b]  preorder node strings of the normalised trees of the (ellipses off, ellipses on) outputs, text
\* nodes passed through the inverse mapping (ellipsis -> three dots, whitespace touching a dot run erased, runs collapsed):
\* structure, literal spans and all other text must be identical.
TreeProp == TR.a = TR.b
TraceReport == Done => PrintT(ToJson(<<"R", TR.id, IF TR.kind = "str" THEN out = TR.t ELSE TRUE,
                                       IF TR.kind = "str" THEN StrProp ELSE IF TR.kind = "doc" THEN DocProp ELSE TreeProp>>))
=============================================================================
