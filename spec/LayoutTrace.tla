----------------------------- MODULE LayoutTrace -----------------------------
(* Validation of re-layout observations (leg C of C03).
   Trace: [id, words, sepsA, sepsB, cont, same]  f(layout A) and f(layout B) of the same paragraph under the same options are
   byte-identical (same);  history traces carry sepsA = sepsB (the canonical layout) and same = (f(f(x,o1),o2) = f(x,o2)).
   The spec decides which observations count: both layouts must be Admissible. *)
EXTENDS Layout, IOUtils
Traces == JsonDeserialize(IOEnv.TRACE_FILE)
VARIABLES tid, pc
TR == Traces[tid]
TraceInit == tid \in 1..Len(Traces) /\ pc = "eval" /\ words = Traces[tid].words /\ seps = Traces[tid].sepsA /\ cont = Traces[tid].cont /\ edits = 0 /\ inner = FALSE
TraceNext == pc = "eval" /\ pc' = "done" /\ UNCHANGED <<vars, tid>>
TraceSpec == TraceInit /\ [][TraceNext]_<<vars, tid, pc>>
TraceReport == pc = "done" => PrintT(ToJson(<<"R", TR.id, Admissible(TR.words, TR.sepsA, TR.cont) /\ Admissible(TR.words, TR.sepsB, TR.cont), TR.same>>))
=============================================================================
