----------------------------- MODULE LinkRender -----------------------------
(* Links, images, autolinks and link reference definitions: MarkdownNormalizer.render_link / render_image / render_auto_link /
   render_link_ref_def with _normalize_title_quotes (C01, C02, C04).

   A case is one link-like construct inside a paragraph, plus (for reference forms) its definition:
     form   "inline" [t](d "x")   "image" ![t](d "x")   "full" [t][r]   "collapsed" [r][]   "shortcut" [r]   "auto" <d>
     dest   "plain" | "parens" (balanced parentheses) | "escparen" (an escaped, unbalanced parenthesis) | "revparen" (as many ")" as "(" but a ")" first: a\)b\(c) | "space" (needs <...>) |
            "empty" | "amp" (query with &) | "email" (autolinks only)
     title  "none" | "dq" "t"  | "sq" 't' | "par" (t) | "dqesc" "say \"hi\"" | "sqdq" 'it"s' | "bs" "a\\b" (an escaped backslash)
     samedef  an inline link whose destination and title equal a definition of the document (flowmark then writes it as a reference)
   Which spelling a reference gets (label or inline) is implementation behaviour modelled by UsesLabel, not part of the properties.

   The machine emits the construct piece by piece (Open, Text, Dest, Title, Close; for reference forms Label; then the definition line)
   as abstract pieces:  dest piece = [k |-> dest kind, angle |-> BOOLEAN, esc |-> BOOLEAN], title piece = [k |-> content kind, q |-> "dq"].
   Readable: what a CommonMark reader needs from the emitted pieces to read the same destination and title back:
     a destination with a space is in angle brackets; an unbalanced parenthesis is escaped (or the destination is in angle brackets);
     a title is delimited by double quotes with every inner double quote and backslash escaped. *)
EXTENDS Naturals, Sequences, FiniteSets, TLC, Json
CONSTANTS Forms, Dests, Titles, Fixed, DoDump     \* Fixed = TRUE: the renderer after the repairs D51 (titles), D52 (unbalanced parentheses), D53 (email autolinks)
VARIABLES c, pc, outp
vars == <<c, pc, outp>>
Cases == [form : Forms, dest : Dests, title : Titles, samedef : BOOLEAN]
Legal(x) == /\ (x.form = "auto") => (x.title = "none" /\ x.dest \in {"plain", "amp", "email"} /\ ~x.samedef)
            /\ (x.dest = "email") => x.form = "auto"
            /\ x.samedef => (x.form = "inline" /\ x.dest \in {"plain", "amp"})
            /\ (x.form \in {"full", "collapsed", "shortcut"}) => x.dest # "empty"
            /\ (x.dest = "empty") => x.title = "none"                  \* "( \"t\")" without a destination is not a link
IsRef(x) == x.form \in {"full", "collapsed", "shortcut"} \/ x.samedef
\* content kind of a title: the delimiters are spelling, the content is what must survive
Content(t) == CASE t \in {"dq", "sq", "par"} -> "plain" [] t \in {"dqesc", "sqdq"} -> "hasdq" [] t = "dqend" -> "enddq" [] t = "bs" -> "hasbs" [] OTHER -> "none"
\* a link is written as a reference iff a definition of the document has the same destination (as written) and the same normalised title
UsesLabel(x) == /\ IsRef(x) /\ x.dest \notin {"space", "escparen", "revparen"}          \* '<a b>' / 'a\)b' as written differ from the parsed destination
                /\ (Fixed \/ x.title \in {"none", "dq", "dqesc"})          \* before D51 only titles written with plain double quotes matched
\* destination inside the parentheses of a link or image: angle brackets for whitespace, and (D52) for an unbalanced parenthesis
DestPiece(d) == [k |-> d, angle |-> d = "space" \/ (Fixed /\ d \in {"escparen", "revparen"}), esc |-> FALSE]
\* destination of a definition line: kept as written
DefDestPiece(d) == [k |-> d, angle |-> d = "space", esc |-> d \in {"escparen", "revparen"}]
TitlePiece(t) == [k |-> IF ~Fixed /\ t = "dqend" THEN "lostquote" ELSE Content(t), q |-> "dq"]
\* title of a definition line: converted from its spelling (before D51: re-quoted by content rules, which wrapped '..' and (..) once more
\* and escaped the escapes of "..")
DefTitlePiece(t) == [k |-> IF Fixed THEN Content(t) ELSE IF t \in {"sq", "par", "sqdq"} THEN "wrapped" ELSE IF t \in {"dqesc", "dqend"} THEN "reescaped" ELSE Content(t), q |-> "dq"]

Init == /\ c \in {x \in Cases : Legal(x)} /\ pc = "open" /\ outp = <<>>
Open == /\ pc = "open" /\ outp' = <<[p |-> IF c.form = "image" THEN "![" ELSE IF c.form = "auto" THEN "<" ELSE "["]>>
        /\ pc' = (IF c.form = "auto" THEN "dest" ELSE "text") /\ UNCHANGED c
Text == /\ pc = "text" /\ outp' = Append(outp, [p |-> "text"]) /\ pc' = (IF UsesLabel(c) THEN "label" ELSE "dest") /\ UNCHANGED c
Label == /\ pc = "label" /\ outp' = Append(outp, [p |-> "label"]) /\ pc' = "def" /\ UNCHANGED c
Dest == /\ pc = "dest" /\ outp' = Append(outp, [p |-> "dest", d |-> IF c.form = "auto" THEN [k |-> IF c.dest = "email" /\ ~Fixed THEN "mailto" ELSE c.dest, angle |-> FALSE, esc |-> FALSE]
                                                                        ELSE DestPiece(c.dest)])
        /\ pc' = (IF c.form = "auto" \/ c.title = "none" THEN "close" ELSE "title") /\ UNCHANGED c
Title == /\ pc = "title" /\ outp' = Append(outp, [p |-> "title", t |-> TitlePiece(c.title)]) /\ pc' = "close" /\ UNCHANGED c
Close == /\ pc = "close" /\ outp' = Append(outp, [p |-> IF c.form = "auto" THEN ">" ELSE ")"]) /\ pc' = (IF IsRef(c) THEN "def" ELSE "done") /\ UNCHANGED c
\* the definition line of a reference form: [label]: dest "title"
Def == /\ pc = "def" /\ outp' = outp \o <<[p |-> "defdest", d |-> DefDestPiece(c.dest)]>>
                                  \o (IF c.title = "none" THEN <<>> ELSE <<[p |-> "deftitle", t |-> DefTitlePiece(c.title)]>>)
       /\ pc' = "done" /\ UNCHANGED c
Next == Open \/ Text \/ Label \/ Dest \/ Title \/ Close \/ Def
Spec == Init /\ [][Next]_vars
Done == pc = "done"

DestOK(d) == (d.k = "space" => d.angle) /\ (d.k \in {"escparen", "revparen"} => (d.esc \/ d.angle))
TitleOK(t) == t.q = "dq"
ReadableOn(o) == \A j \in 1..Len(o) : /\ (o[j].p \in {"dest", "defdest"} => DestOK(o[j].d))
                                      /\ (o[j].p \in {"title", "deftitle"} => TitleOK(o[j].t))
\* nothing is dropped: a construct with a title emits a title piece carrying the content kind; a reference form keeps its definition
KeptOn(o) == /\ (c.title # "none") => \E j \in 1..Len(o) : o[j].p \in {"title", "deftitle"}
             /\ \A j \in 1..Len(o) : o[j].p \in {"title", "deftitle"} => o[j].t.k = Content(c.title)
             /\ \E j \in 1..Len(o) : o[j].p \in {"dest", "defdest"}
             /\ \A j \in 1..Len(o) : o[j].p \in {"dest", "defdest"} => o[j].d.k = c.dest
             /\ IsRef(c) => \E j \in 1..Len(o) : o[j].p = "defdest"                \* the definition stays in the document
Readable == Done => ReadableOn(outp)
Kept == Done => KeptOn(outp)
Dump == (Done /\ DoDump) => PrintT(ToJson(<<"K", c>>))
=============================================================================
