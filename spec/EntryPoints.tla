---------------------------- MODULE EntryPoints ----------------------------
(* Option threading through the entry points of flowmark (C15):
     argv --ParseArgv--> Options --CallFiles--> reformat_files kwargs --CallFile--> reformat_file kwargs
          --CallText--> reformat_text positional args --CallFill--> fill_markdown / fill_text (the sink).
   A point of the option space is a record of user-level settings `u`; an entry point `ep` says at which layer the
   user enters and where input/output go.  Every layer copies the record (the positional call in
   reformat_file -> reformat_text is modelled as a tuple in the callee's parameter order).
   Expected(u) is what must reach the sink; usage errors are a table.  The product is finite and explored
   completely.  Mutant # "none" re-wires one hop (to show the invariant has teeth). *)
EXTENDS Naturals, Sequences, FiniteSets, TLC, Json
CONSTANTS Widths, Mutant, DoDump
Bool == {TRUE, FALSE}
Spacings == {"preserve", "loose", "tight"}
EPs == {"cli_file_stdout", "cli_file_inplace", "cli_file_inplace_nobackup", "cli_stdin_stdout", "cli_stdin_out", "cli_auto",
        "cli_multi_stdout", "cli_multi_inplace", "api_file_stdout", "api_file_inplace", "api_files_inplace", "api_text",
        "err_no_input", "err_out_multi", "err_out_dir", "err_out_glob", "err_inplace_stdin", "err_inplace_file_stdin"}
CliEPs == {e \in EPs : e \notin {"api_file_stdout", "api_file_inplace", "api_files_inplace", "api_text"}}
\* "several files" is a property of the resolved list, not of argv: one directory or one glob argument that yields two files counts
\* a usage error is detected before ANY file is touched: --inplace with a file AND stdin must not format the file first
ErrEPs == {"err_no_input", "err_out_multi", "err_out_dir", "err_out_glob", "err_inplace_stdin", "err_inplace_file_stdin"}
VARIABLES u, ep, layer, o
vars == <<u, ep, layer, o>>

Settings == [width : Widths, plaintext : Bool, semantic : Bool, cleanups : Bool, smartquotes : Bool, ellipses : Bool, ls : Spacings]
\* what --auto stands for
AutoOf(s) == [s EXCEPT !.semantic = TRUE, !.cleanups = TRUE, !.smartquotes = TRUE, !.ellipses = TRUE]
Expected(s, e) == IF e = "cli_auto" THEN AutoOf(s) ELSE s
\* sink equivalence: in plaintext mode only the width reaches fill_text
SinkView(s) == IF s.plaintext THEN [width |-> s.width, plaintext |-> TRUE] ELSE s

Init == /\ u \in Settings /\ ep \in EPs
        /\ (ep = "cli_auto" => ~u.semantic /\ ~u.cleanups /\ ~u.smartquotes /\ ~u.ellipses)   \* auto is given alone
        /\ layer = IF ep \in CliEPs THEN "argv" ELSE IF ep = "api_files_inplace" THEN "files"
                   ELSE IF ep = "api_text" THEN "text" ELSE "file"
        /\ o = u
Swap(s, a, b) == [s EXCEPT ![a] = s[b], ![b] = s[a]]
ParseArgv == /\ layer = "argv" /\ layer' = (IF ep \in ErrEPs THEN "usage" ELSE "files")
             /\ o' = IF ep = "cli_auto" THEN (IF Mutant = "auto_misses_ellipses" THEN [AutoOf(o) EXCEPT !.ellipses = FALSE] ELSE AutoOf(o)) ELSE o
             /\ UNCHANGED <<u, ep>>
CallFiles == /\ layer = "files" /\ layer' = "file"
             /\ o' = IF Mutant = "files_drops_ls" THEN [o EXCEPT !.ls = "preserve"] ELSE o
             /\ UNCHANGED <<u, ep>>
CallFile  == /\ layer = "file" /\ layer' = "text"
             /\ o' = IF Mutant = "swap_sem_cleanups" THEN Swap(o, "semantic", "cleanups") ELSE o
             /\ UNCHANGED <<u, ep>>
CallText  == /\ layer = "text" /\ layer' = "sink" /\ o' = o /\ UNCHANGED <<u, ep>>
Next == ParseArgv \/ CallFiles \/ CallFile \/ CallText
Spec == Init /\ [][Next]_vars

AtSink == layer = "sink"
SinkCorrect == AtSink => SinkView(o) = SinkView(Expected(u, ep))
UsageErrorsStop == ep \in ErrEPs => layer \in {"argv", "usage"}
Dump == ((AtSink \/ layer = "usage") /\ DoDump) =>
          PrintT(ToJson(<<"P", ep, u, IF layer = "usage" THEN u ELSE Expected(u, ep), layer>>))
=============================================================================
