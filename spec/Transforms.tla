----------------------------- MODULE Transforms -----------------------------
(* Cleanups and list spacing (C10) as functions on abstract documents, evaluated by TLC on observations.

   Unbold works on the preorder node sequence of a normalised tree (harness/project.py `flat`): a heading "hN(" whose whole
   content is one "StrongEmphasis(" ... ")" loses that wrapper; a heading whose whole content is "Emphasis(" "StrongEmphasis("
   ... ")" ")" loses the inner wrapper, repeatedly (a heading that is still entirely bold has not lost the bold); everything else is untouched.   CleanupsProp: flat(on) = Unbold(flat(off)).

   Spacing is stated on what a reader can see:
     gaps  -- for every pair of consecutive non-blank output lines: the number of blank lines between them under preserve
              (g0) and under the mode (g1), and whether the second line starts a list item (item);
     lists -- for every list of the document (same order in both outputs): number of items, whether every item holds a
              single block, tightness read from the preserve output (t0) and from the mode output (t1).
   SpacingProp(mode): the non-blank lines are the same sequence; blank lines differ only directly before a list item;
   loose: every list with >= 2 items reads loose; tight: every list with >= 2 items whose items hold a single block reads
   tight and no list gains blank lines; preserve: nothing differs. *)
EXTENDS Naturals, Sequences, FiniteSets, TLC, Json, IOUtils
Traces == JsonDeserialize(IOEnv.TRACE_FILE)
VARIABLES tid, pc
TR == Traces[tid]
Heads == {"h1(", "h2(", "h3(", "h4(", "h5(", "h6("}
\* the harness marks opening tokens (strings ending in "(") in TR.opens because TLA+ has no string suffix test
RECURSIVE CloseOf(_, _, _)
CloseOf(f, i, depth) ==      \* index of the ")" matching the opener at position i - 1 (scan starts at i with depth 1)
  IF i > Len(f) THEN 0
  ELSE IF f[i] = ")" THEN (IF depth = 1 THEN i ELSE CloseOf(f, i + 1, depth - 1))
  ELSE IF TR.opens[f[i]] THEN CloseOf(f, i + 1, depth + 1)
  ELSE CloseOf(f, i + 1, depth)
Drop(f, a, b) == SubSeq(f, 1, a - 1) \o SubSeq(f, a + 1, b - 1) \o SubSeq(f, b + 1, Len(f))
RECURSIVE Unbold(_, _)
Unbold(f, i) ==
  IF i > Len(f) THEN f
  ELSE IF f[i] \in Heads
       THEN LET hc == CloseOf(f, i + 1, 1) IN
            IF i + 1 <= Len(f) /\ f[i + 1] = "StrongEmphasis(" /\ CloseOf(f, i + 2, 1) = hc - 1
              THEN Unbold(Drop(f, i + 1, hc - 1), i)          \* re-examine: bold nested directly in bold is bold still
            ELSE IF i + 2 <= Len(f) /\ f[i + 1] = "Emphasis(" /\ f[i + 2] = "StrongEmphasis("
                    /\ CloseOf(f, i + 2, 1) = hc - 1 /\ CloseOf(f, i + 3, 1) = hc - 2
              THEN Unbold(Drop(f, i + 2, hc - 2), i)
            ELSE Unbold(f, i + 1)
       ELSE Unbold(f, i + 1)
CleanupsProp == Unbold(TR.off, 1) = TR.on

GapsOnlyBeforeItems == \A j \in 1..Len(TR.gaps) : TR.gaps[j].g0 # TR.gaps[j].g1 => TR.gaps[j].item
GapDirection == /\ TR.mode = "preserve" => \A j \in 1..Len(TR.gaps) : TR.gaps[j].g0 = TR.gaps[j].g1
                /\ TR.mode = "loose" => \A j \in 1..Len(TR.gaps) : TR.gaps[j].g1 >= TR.gaps[j].g0
                /\ TR.mode = "tight" => \A j \in 1..Len(TR.gaps) : TR.gaps[j].g1 <= TR.gaps[j].g0
Tightness == /\ TR.mode = "loose" => \A j \in 1..Len(TR.lists) : TR.lists[j].n >= 2 => ~TR.lists[j].t1
             /\ TR.mode = "tight" => \A j \in 1..Len(TR.lists) : (TR.lists[j].n >= 2 /\ TR.lists[j].single) => TR.lists[j].t1
             \* a list with an item that holds several blocks is not tightened: it reads as authored, or as preserve renders it
             \* (where preserve itself deviates from the input that is C01's finding, not an effect of the mode)
             /\ TR.mode = "tight" => \A j \in 1..Len(TR.lists) : ~TR.lists[j].single => (TR.lists[j].t1 = TR.lists[j].tin \/ TR.lists[j].t1 = TR.lists[j].t0)
             /\ TR.mode = "preserve" => \A j \in 1..Len(TR.lists) : TR.lists[j].t1 = TR.lists[j].t0
\* loose: EVERY item after the first of its list ("later") is separated from the line before it by a blank line (not only "the list reads loose", which one blank line achieves)
ItemsSeparated == TR.mode = "loose" => \A j \in 1..Len(TR.gaps) : TR.gaps[j].later => TR.gaps[j].g1 >= 1
SpacingVec == <<TR.same_nonblank, GapsOnlyBeforeItems, GapDirection, Tightness, ItemsSeparated>>
SpacingProp == TR.same_nonblank /\ GapsOnlyBeforeItems /\ GapDirection /\ Tightness /\ ItemsSeparated
Init == tid \in 1..Len(Traces) /\ pc = "eval"
Next == pc = "eval" /\ pc' = "done" /\ UNCHANGED tid
Spec == Init /\ [][Next]_<<tid, pc>>
Report == pc = "done" => PrintT(ToJson(<<"R", TR.id, IF TR.kind = "cleanups" THEN CleanupsProp ELSE SpacingProp,
                                        IF TR.kind = "cleanups" THEN <<>> ELSE SpacingVec>>))
=============================================================================
