---------------------------- MODULE Reader ----------------------------
(* CommonMark block reading of abstract lines [p |-> markers over {"Q","B","I"}, b |-> body] into a
   preorder token stream without BlankLine tokens: P H C  Q( L( I( )  ; list tightness is returned
   separately as a sequence of BOOLEAN (one per "L(" in order of opening). *)
EXTENDS Naturals, Sequences, TLC
\* reader state
\*  open  : stack of [k |-> "Q"|"L"|"I", id |-> list ordinal (for L)]
\*  out   : token stream so far
\*  loose : sequence of BOOLEAN, one per list opened so far
\*  para, fence : leaf state of the innermost container; blank : pending blank line(s)
\*  kids  : per open container, number of block children so far (parallel to open, plus one for the document at index 0 -> stored as first element)
\*  bq    : position in `open` of the innermost quote that the pending blank line was inside of (0 = none): a blank line
\*          inside a quote only separates blocks inside that quote, never the children of an enclosing list item
\*  th    : the current paragraph consists of exactly one line and that line is a table header row (a delimiter row would make it a table)
\*  tbl   : the innermost container's current block is a GFM table (any following non-blank line of the container is a row)
Init0 == [open |-> <<>>, out |-> <<>>, loose |-> <<>>, para |-> FALSE, fence |-> FALSE, blank |-> FALSE, bq |-> 0, kids |-> <<0>>,
          th |-> FALSE, tbl |-> FALSE]
InnerQ(open) == IF \E j \in 1..Len(open) : open[j].k = "Q"
                THEN CHOOSE j \in 1..Len(open) : open[j].k = "Q" /\ \A m \in (j + 1)..Len(open) : open[m].k # "Q"
                ELSE 0

RECURSIVE Match(_, _, _, _)
\* walk open containers from index j with remaining markers p; returns [n |-> matched containers, rest |-> remaining markers]
Match(open, j, p, isBlank) ==
  IF j > Len(open) THEN [n |-> Len(open), rest |-> p]
  ELSE CASE open[j].k = "L" -> Match(open, j + 1, p, isBlank)
         [] open[j].k = "Q" -> IF p # <<>> /\ Head(p) = "Q" THEN Match(open, j + 1, Tail(p), isBlank)
                               ELSE IF Len(p) >= 2 /\ p[1] = "I" /\ p[2] = "Q" THEN Match(open, j + 1, SubSeq(p, 3, Len(p)), isBlank)
                               ELSE [n |-> j - 1, rest |-> p]
         [] open[j].k = "I" -> IF p # <<>> /\ Head(p) = "I" THEN Match(open, j + 1, Tail(p), isBlank)
                               ELSE IF isBlank /\ p = <<>> THEN Match(open, j + 1, p, isBlank)
                               ELSE [n |-> j - 1, rest |-> p]
RECURSIVE Closers(_)
Closers(n) == IF n = 0 THEN <<>> ELSE <<")">> \o Closers(n - 1)
\* a list that is matched "transparently" must not stay open when its items are all closed and the line
\* does not start a new item: handled in Step by trimming trailing L from the matched prefix.
TrimL(open, n, startsItem) ==
  IF n > 0 /\ open[n].k = "L" /\ ~startsItem THEN n - 1 ELSE n

CloseTo(st, n) ==  \* close containers above depth n
  [st EXCEPT !.open = SubSeq(st.open, 1, n), !.out = st.out \o Closers(Len(st.open) - n),
             !.kids = SubSeq(st.kids, 1, n + 1),
             !.para = IF n < Len(st.open) THEN FALSE ELSE st.para,
             !.th = IF n < Len(st.open) THEN FALSE ELSE st.th, !.tbl = IF n < Len(st.open) THEN FALSE ELSE st.tbl,
             !.fence = IF n < Len(st.open) THEN FALSE ELSE st.fence]
\* a new block child starts in the innermost open container: tightness bookkeeping
NoteChild(st) ==
  LET d == Len(st.open)
      st1 == IF st.blank /\ st.bq <= d /\ d > 0 /\ st.open[d].k = "I" /\ st.kids[d + 1] > 0
             THEN [st EXCEPT !.loose[st.open[d - 1].id] = TRUE] ELSE st
  IN [st1 EXCEPT !.kids[d + 1] = @ + 1, !.blank = FALSE]
RECURSIVE OpenNew(_, _)
OpenNew(st, rest) ==
  IF rest = <<>> THEN st
  ELSE CASE Head(rest) = "Q" ->
              LET s1 == NoteChild([st EXCEPT !.para = FALSE])
              IN OpenNew([s1 EXCEPT !.open = Append(@, [k |-> "Q", id |-> 0]), !.out = Append(@, "Q("), !.kids = Append(@, 0)], Tail(rest))
         [] Head(rest) = "B" ->
              LET d == Len(st.open)
                  inList == d > 0 /\ st.open[d].k = "L"
                  s0 == [st EXCEPT !.para = FALSE]
                  \* new item in an existing list: blank before it makes that list loose
                  s1 == IF inList
                        THEN [ (IF s0.blank /\ s0.bq <= d /\ s0.kids[d + 1] > 0 THEN [s0 EXCEPT !.loose[s0.open[d].id] = TRUE] ELSE s0)
                               EXCEPT !.kids[d + 1] = @ + 1, !.blank = FALSE ]
                        ELSE LET s2 == NoteChild(s0)
                                 lid == Len(s2.loose) + 1
                             IN [s2 EXCEPT !.open = Append(@, [k |-> "L", id |-> lid]), !.out = Append(@, "L("),
                                           !.loose = Append(@, FALSE), !.kids = Append(@, 1)]
              IN OpenNew([s1 EXCEPT !.open = Append(@, [k |-> "I", id |-> 0]), !.out = Append(@, "I("), !.kids = Append(@, 0)], Tail(rest))
         [] OTHER -> OpenNew(st, Tail(rest))      \* stray indentation (< 4 columns): ignored
Step(st, l) ==
  LET isBlank == l.b = "blank"
      m == Match(st.open, 1, l.p, isBlank)
      startsItem == m.rest # <<>> /\ Head(m.rest) = "B"
      n == TrimL(st.open, m.n, startsItem)
      textLike == l.b \in {"text", "thead", "tdelim", "trow"}
      lazy == st.para /\ ~st.fence /\ textLike /\ n < Len(st.open) /\ \A j \in 1..Len(m.rest) : m.rest[j] = "I"
  IN IF isBlank
       THEN \* blank line: closes quotes it does not carry a marker for; ends paragraphs; items stay open
            LET s1 == CloseTo(st, n) IN
            IF s1.fence THEN s1 ELSE [s1 EXCEPT !.para = FALSE, !.blank = TRUE, !.bq = InnerQ(s1.open), !.th = FALSE, !.tbl = FALSE]
     ELSE IF lazy THEN [st EXCEPT !.th = FALSE]
     ELSE LET s1 == CloseTo(st, n) IN
          IF s1.fence /\ (\A j \in 1..Len(m.rest) : m.rest[j] = "I")
            THEN (IF l.b = "fence" THEN [s1 EXCEPT !.fence = FALSE] ELSE s1)
          ELSE LET s2 == OpenNew(s1, m.rest)
                   fresh == (\E j \in 1..Len(m.rest) : m.rest[j] # "I") \/ n < Len(st.open)
               IN CASE textLike ->
                         IF s2.tbl /\ ~fresh THEN s2                                        \* any line directly after table rows is a row
                         ELSE IF l.b = "tdelim" /\ s2.para /\ s2.th /\ ~fresh
                           THEN [s2 EXCEPT !.out = [@ EXCEPT ![Len(@)] = "T"], !.para = FALSE, !.th = FALSE, !.tbl = TRUE]   \* header + delimiter = table
                         ELSE IF s2.para /\ ~fresh THEN [s2 EXCEPT !.th = FALSE]
                         ELSE [NoteChild(s2) EXCEPT !.out = Append(@, "P"), !.para = TRUE, !.th = (l.b = "thead"), !.tbl = FALSE]
                    [] l.b = "head" -> [NoteChild(s2) EXCEPT !.out = Append(@, "H"), !.para = FALSE, !.th = FALSE, !.tbl = FALSE]
                    [] l.b = "hr" -> [NoteChild(s2) EXCEPT !.out = Append(@, "R"), !.para = FALSE, !.th = FALSE, !.tbl = FALSE]
                    [] l.b = "fence" -> [NoteChild(s2) EXCEPT !.out = Append(@, "C"), !.para = FALSE, !.fence = TRUE, !.th = FALSE, !.tbl = FALSE]
RECURSIVE ReadFrom(_, _, _)
ReadFrom(st, lines, j) == IF j > Len(lines) THEN st ELSE ReadFrom(Step(st, lines[j]), lines, j + 1)
Read(lines) == LET st == CloseTo(ReadFrom(Init0, lines, 1), 0) IN [toks |-> st.out, loose |-> st.loose]
=====================================================================
