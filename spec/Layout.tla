------------------------------- MODULE Layout -------------------------------
(* Meaning-preserving re-layouts of a paragraph (C03).
   A paragraph is a sequence of words (kinds: "p" plain, "s" sentence-ending word, "a" atomic construct with an inner
   space (code span / link), "h" a word that looks like block syntax (-, 1., #, >, ```...), "e" a numeral whose period the author escaped (1\.), "t" template tag or HTML comment).
   A layout gives every gap between two words a separator:
     "s1" one space   "s2" two or more spaces   "nl" newline (+ the container's continuation prefix)
     "nli" newline + continuation prefix + extra indentation   "nll" newline without the prefix (lazy continuation).
   Admissible layouts are exactly the re-layouts the property quantifies over: they do not create or remove a newline
   next to a tag/comment (the one layout that is deliberately significant), never put a block-looking word at a line
   start (that would be a different document) and use "nll" only inside a container.
   The machine changes one gap at a time (a history of edits to the source layout); Canon -- the word sequence every
   tokeniser of flowmark (whitespace-run collapsing, newline -> space, str.split) derives from the text -- is invariant,
   and for admissible layouts the tag-newline segmentation (Segments) sees a single segment. *)
EXTENDS Naturals, Sequences, FiniteSets, TLC, Json
CONSTANTS MaxWords, WordKinds, Seps, Containers, DoDump
VARIABLES words, seps, cont, edits, inner
vars == <<words, seps, cont, edits, inner>>
LineBreak(s) == s \in {"nl", "nli", "nll"}
Admissible(ws, ss, c) ==
  /\ ws[1] \in {"p", "s", "a"}
  /\ \A g \in 1..Len(ss) :
       /\ LineBreak(ss[g]) => (ws[g] # "t" /\ ws[g + 1] # "t" /\ ws[g + 1] \notin {"h"})
       /\ ss[g] = "nll" => c # "top"
Canon(ws, ss) == ws                                   \* every separator is a whitespace run: token boundaries are the gaps
Segments1(ws, ss) == ~\E g \in 1..Len(ss) : LineBreak(ss[g]) /\ (ws[g] = "t" \/ ws[g + 1] = "t")
Init == /\ words \in UNION {[1..n -> WordKinds] : n \in 2..MaxWords} /\ cont \in Containers
        /\ seps = [g \in 1..(Len(words) - 1) |-> "s1"] /\ edits = 0 /\ inner = FALSE
Relayout(g, s) == /\ g \in 1..Len(seps) /\ s \in Seps /\ s # seps[g] /\ edits < Len(seps)
                  /\ seps' = [seps EXCEPT ![g] = s] /\ edits' = edits + 1 /\ UNCHANGED <<words, cont, inner>>
\* the run of spaces INSIDE an atomic construct (link text, code span) is layout as well: inner = TRUE writes it as two spaces
SpaceInside == /\ ~inner /\ \E j \in 1..Len(words) : words[j] = "a"
               /\ inner' = TRUE /\ UNCHANGED <<words, seps, cont, edits>>
Next == (\E g \in 1..(MaxWords - 1), s \in Seps : Relayout(g, s)) \/ SpaceInside
Spec == Init /\ [][Next]_vars
view == <<words, seps, cont, inner>>
CanonStable == Canon(words, seps) = words
OneSegment == Admissible(words, seps, cont) => Segments1(words, seps)
Dump == DoDump => PrintT(ToJson(<<"L", words, seps, cont, Admissible(words, seps, cont), inner>>))
=============================================================================
