------------------------------ MODULE Pipeline ------------------------------
(* fill_markdown / reformat_text as a staged call protocol (C12, and the stage logic used by C15).
   A call has options o = [plaintext, cleanups, smartquotes, ellipses, fm (input has closed frontmatter), unclosed];
   the machine walks the stages of the code in order; every stage either completes or -- in the property's negation --
   raises or hangs.  The protocol has NO Raise and NO Timeout action: an observed call that ends in one is not a behaviour.
   Stages (markdown): SplitFM, Dedent, Preprocess, Parse, [Cleanups], [Quotes], [Ellipses], Render, [Reattach], Return;
   (plaintext): Fill, Return.   On Return the result flags must satisfy WellFormed. *)
EXTENDS Naturals, Sequences, FiniteSets, TLC, Json
CONSTANTS DoDump
VARIABLES o, pc, done
vars == <<o, pc, done>>
Opts == [plaintext : BOOLEAN, cleanups : BOOLEAN, smartquotes : BOOLEAN, ellipses : BOOLEAN, fm : BOOLEAN, unclosed : BOOLEAN]
Init == o \in {x \in Opts : ~(x.fm /\ x.unclosed)} /\ pc = "call" /\ done = <<>>
Stage(from, name, to) == pc = from /\ pc' = to /\ done' = Append(done, name) /\ UNCHANGED o
Skip(from, to) == pc = from /\ pc' = to /\ UNCHANGED <<o, done>>
Call      == pc = "call" /\ pc' = (IF o.plaintext THEN "fill" ELSE "splitfm") /\ UNCHANGED <<o, done>>
Fill      == Stage("fill", "fill_text", "return")
SplitFM   == Stage("splitfm", "split_frontmatter", IF o.unclosed THEN "return" ELSE "preprocess")
Preprocess == Stage("preprocess", "preprocess_tag_block_spacing", "parse")
Parse     == Stage("parse", "parse", "cleanups")
Cleanups  == IF o.cleanups THEN Stage("cleanups", "doc_cleanups", "quotes") ELSE Skip("cleanups", "quotes")
Quotes    == IF o.smartquotes THEN Stage("quotes", "rewrite_text_across_inlines", "ellipses") ELSE Skip("quotes", "ellipses")
Ellipses  == IF o.ellipses THEN Stage("ellipses", "rewrite_text_content", "render") ELSE Skip("ellipses", "render")
Render    == Stage("render", "render", "return")
Return    == pc = "return" /\ pc' = "returned" /\ UNCHANGED <<o, done>>
Next == Call \/ Fill \/ SplitFM \/ Preprocess \/ Parse \/ Cleanups \/ Quotes \/ Ellipses \/ Render \/ Return
Spec == Init /\ [][Next]_vars /\ WF_vars(Next)
Terminates == <>(pc = "returned")
\* transformation stages run in the documented order: cleanups, then smart quotes, then ellipses, all between Parse and Render
Ordered == \A i, j \in 1..Len(done) : (done[i] = "parse" /\ done[j] = "render") => i < j
Dump == (pc = "returned" /\ DoDump) => PrintT(ToJson(<<"S", o, done>>))
=============================================================================
