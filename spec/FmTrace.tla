------------------------------ MODULE FmTrace ------------------------------
(* Validation of observed frontmatter handling (leg C of C07).
   Trace: [id, doc, ref_kind, obs_kind, block_ok, prefix_ok, suffix_ok, fixed_ok]
     doc      = the input as pieces [c, s];  ref_kind = the reference reading the harness used (from the model run);
     obs_kind = how the public split_frontmatter(text) classified the text ("none" | "unclosed" | "closed");
     block_ok  = split_frontmatter returned exactly the reference block (character for character, CRLF -> LF),
     prefix_ok = reformat_text's output starts with that block,  suffix_ok = the rest equals reformat_text(body alone),
     fixed_ok  = formatting the output again changes nothing (unclosed: output = input + final newline).
   The machine Split is stepped on doc; acceptance = its classification equals obs_kind; the reference reading is
   recomputed here (Ref) and must equal ref_kind. *)
EXTENDS Frontmatter, IOUtils
Traces == JsonDeserialize(IOEnv.TRACE_FILE)
VARIABLE tid
TR == Traces[tid]
TraceInit == /\ tid \in 1..Len(Traces) /\ doc = Traces[tid].doc /\ pc = "split" /\ start = 0 /\ endi = 0 /\ res = <<>>
TraceSpec == TraceInit /\ [][Next /\ UNCHANGED tid]_<<vars, tid>>
TraceReport == Done => PrintT(ToJson(<<"R", TR.id, res.kind = TR.obs_kind, Ref.kind = TR.ref_kind,
                                       TR.block_ok, TR.prefix_ok, TR.suffix_ok, TR.fixed_ok, Trig11>>))
=============================================================================
