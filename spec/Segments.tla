---------------------------- MODULE Segments ----------------------------
(* add_tag_newline_handling(line_wrap_to_width(width, is_markdown=True)) without hard breaks.
   Words: "w"=aaa  "T"={% t %}  "C"={% /t %}  "L"=-  "P"=|x ; token "TC" = paired {% t %} {% /t %}.
   A source line = [ind |-> BOOLEAN, ws |-> Seq(kind)].  Output line = [ind |-> "" | "i" | "s", toks |-> Seq([k, glue, esc])]
   or the blank line [ind |-> "", toks |-> <<>>]. *)
EXTENDS Naturals, Sequences, FiniteSets, TLC, Json
CONSTANTS MaxLines, MaxWords, Widths, IndentModes, DoDump
VARIABLES src, width, im, pc
Kinds == {"w", "T", "C", "L", "P"}
WLen(k) == CASE k = "w" -> 3 [] k = "T" -> 7 [] k = "C" -> 8 [] k = "L" -> 1 [] k = "P" -> 2 [] k = "TC" -> 16
IsTag(k) == k \in {"T", "C", "TC"}
II == IF im = "list" THEN 2 ELSE 0      \* len(initial_indent)  ("- " or "")
SI == IF im = "list" THEN 2 ELSE 0      \* len(subsequent_indent) ("  " or "")

\* ---------------- source-line predicates (tag_handling / block_heuristics) ----------------
EndsTag(l) == l.ws # <<>> /\ IsTag(l.ws[Len(l.ws)])
StartsTag(l) == l.ws # <<>> /\ IsTag(l.ws[1])
UnindTag(l) == ~l.ind /\ StartsTag(l)
IsBlockSrc(l) == l.ws # <<>> /\ (l.ws[1] = "P" \/ (l.ws[1] = "L" /\ Len(l.ws) > 1))
HasTags == \E j \in 1..Len(src) : EndsTag(src[j]) \/ StartsTag(src[j])

\* ---------------- segmentation ----------------
NewSeg(j) == j > 1 /\ ( EndsTag(src[j-1]) \/ UnindTag(src[j]) \/ (HasTags /\ IsBlockSrc(src[j])) \/ (HasTags /\ IsBlockSrc(src[j-1])) )
RECURSIVE SegsFrom(_, _, _)
SegsFrom(j, cur, acc) ==   \* cur = [lo, hi] of current segment
  IF j > Len(src) THEN Append(acc, cur)
  ELSE IF NewSeg(j) THEN SegsFrom(j + 1, [lo |-> j, hi |-> j], Append(acc, cur))
  ELSE SegsFrom(j + 1, [lo |-> cur.lo, hi |-> j], acc)
Segs == SegsFrom(2, [lo |-> 1, hi |-> 1], <<>>)

\* ---------------- splitter: words of lines lo..hi, pairing T C inside one line ----------------
RECURSIVE PairLine(_)
PairLine(ws) == IF ws = <<>> THEN <<>>
                ELSE IF Len(ws) >= 2 /\ ws[1] = "T" /\ ws[2] = "C" THEN <<"TC">> \o PairLine(SubSeq(ws, 3, Len(ws)))
                ELSE <<ws[1]>> \o PairLine(Tail(ws))
RECURSIVE WordsOf(_, _)
WordsOf(lo, hi) == IF lo > hi THEN <<>> ELSE PairLine(src[lo].ws) \o WordsOf(lo + 1, hi)

\* ---------------- greedy fill with markdown escaping; returns seq of seq of [k, esc] ----------------
ELen(t) == WLen(t.k) + (IF t.esc THEN 1 ELSE 0)
RECURSIVE Fill(_, _, _, _, _, _)
Fill(ws, i, cur, curw, first, acc) ==
  IF i > Len(ws) THEN (IF cur = <<>> THEN acc ELSE Append(acc, cur))
  ELSE LET sp == IF cur = <<>> THEN 0 ELSE 1 IN
       IF curw + WLen(ws[i]) + sp <= width
         THEN Fill(ws, i + 1, Append(cur, [k |-> ws[i], esc |-> FALSE]), curw + WLen(ws[i]) + sp, first, acc)
         ELSE LET first2 == IF cur = <<>> THEN first ELSE FALSE
                  t == [k |-> ws[i], esc |-> (~first2 /\ ws[i] = "L")]
              IN Fill(ws, i + 1, <<t>>, SI + ELen(t), first2, IF cur = <<>> THEN acc ELSE Append(acc, cur))
\* wrap_paragraph for one segment: first-line indent kind fi \in {"", "i", "s"} ; then denormalize (glue tag after tag)
Glue(line) == [j \in 1..Len(line) |-> [k |-> line[j].k, esc |-> line[j].esc,
                                       glue |-> (j > 1 /\ IsTag(line[j-1].k) /\ IsTag(line[j].k))]]
IndLen(x) == IF x = "" THEN 0 ELSE 2
WrapSeg(lo, hi, fi) ==
  LET ls == Fill(WordsOf(lo, hi), 1, <<>>, IndLen(fi), TRUE, <<>>)
      si == IF im = "list" THEN "s" ELSE ""
  IN [j \in 1..Len(ls) |-> [ind |-> (IF j = 1 THEN fi ELSE si), toks |-> Glue(ls[j])]]

\* ---------------- emitted-line predicates ----------------
Blank == [ind |-> "", toks |-> <<>>]
FirstK(l) == IF l.toks = <<>> THEN "" ELSE l.toks[1].k
IsBlockOut(l) ==   \* line_is_block_content on the emitted string (after lstrip); a list-indent "- " first line is block content
  \/ l.ind = "i" /\ l.toks # <<>>
  \/ (l.ind # "i" /\ l.toks # <<>> /\ ( FirstK(l) = "P" \/ (FirstK(l) = "L" /\ ~l.toks[1].esc /\ Len(l.toks) > 1) ))
IsClosingOut(l) == l.ind # "i" /\ FirstK(l) = "C"
StartsTagOut(l) == l.ind # "i" /\ IsTag(FirstK(l))

\* ---------------- join segments ----------------
SegIsBlock(sg) == \E j \in sg.lo..sg.hi : IsBlockSrc(src[j])
RECURSIVE Join(_, _)
Join(n, acc) ==
  IF n > Len(Segs) THEN acc
  ELSE LET fi == IF n = 1 THEN (IF im = "list" THEN "i" ELSE "") ELSE (IF im = "list" THEN "s" ELSE "")
           w == WrapSeg(Segs[n].lo, Segs[n].hi, fi)
           sepBlank == n > 1 /\ ( (EndsTag(src[Segs[n-1].hi]) /\ SegIsBlock(Segs[n])) \/ (SegIsBlock(Segs[n-1]) /\ UnindTag(src[Segs[n].lo])) )
       IN Join(n + 1, acc \o (IF sepBlank THEN <<Blank>> ELSE <<>>) \o w)
\* ---------------- _fix_closing_tag_spacing ----------------
RECURSIVE FixClosing(_, _, _)
FixClosing(ls, j, acc) ==
  IF j > Len(ls) THEN acc
  ELSE IF IsClosingOut(ls[j])
       THEN LET needBlank == acc # <<>> /\ acc[Len(acc)].toks # <<>> /\ IsBlockOut(acc[Len(acc)])
            IN FixClosing(ls, j + 1, acc \o (IF needBlank THEN <<Blank>> ELSE <<>>) \o <<[ind |-> "", toks |-> ls[j].toks]>>)
       ELSE FixClosing(ls, j + 1, Append(acc, ls[j]))
\* ---------------- _fix_multiline_opening_tag_with_closing ----------------
\* on lines after the first that do not start with a tag: split before the first closing tag that follows a tag end
ClosePos(l) == {j \in 2..Len(l.toks) : l.toks[j].k = "C" /\ IsTag(l.toks[j-1].k)} \cup
               {j \in 1..Len(l.toks) : l.toks[j].k = "TC"}
RECURSIVE FixMulti(_, _, _)
FixMulti(ls, j, acc) ==
  IF j > Len(ls) THEN acc
  ELSE IF j > 1 /\ ls[j].toks # <<>> /\ ~StartsTagOut(ls[j]) /\ ~(ls[j].ind = "i" /\ FALSE) /\ ClosePos(ls[j]) # {}
       THEN LET p == CHOOSE q \in ClosePos(ls[j]) : \A r \in ClosePos(ls[j]) : q <= r
                t == ls[j].toks[p]
            IN IF t.k = "TC"
                 THEN FixMulti(ls, j + 1, acc \o << [ind |-> ls[j].ind, toks |-> SubSeq(ls[j].toks, 1, p - 1) \o <<[k |-> "T", esc |-> FALSE, glue |-> t.glue]>>],
                                                    [ind |-> "", toks |-> <<[k |-> "C", esc |-> FALSE, glue |-> FALSE]>> \o SubSeq(ls[j].toks, p + 1, Len(ls[j].toks))] >>)
                 ELSE FixMulti(ls, j + 1, acc \o << [ind |-> ls[j].ind, toks |-> SubSeq(ls[j].toks, 1, p - 1)],
                                                    [ind |-> "", toks |-> <<[t EXCEPT !.glue = FALSE]>> \o SubSeq(ls[j].toks, p + 1, Len(ls[j].toks))] >>)
       ELSE FixMulti(ls, j + 1, Append(acc, ls[j]))
Result ==
  IF Len(src) = 1 \/ Len(Segs) = 1
    THEN FixMulti(WrapSeg(1, Len(src), IF im = "list" THEN "i" ELSE ""), 1, <<>>)
    ELSE FixMulti(FixClosing(Join(1, <<>>), 1, <<>>), 1, <<>>)

SrcLines == UNION {[1..n -> [ind : BOOLEAN, ws : UNION {[1..m -> Kinds] : m \in 1..MaxWords}]] : n \in 1..MaxLines}
Init == /\ src \in {s \in SrcLines : ~s[1].ind}
        /\ width \in Widths /\ im \in IndentModes /\ pc = "s"
Next == pc = "s" /\ pc' = "d" /\ UNCHANGED <<src, width, im>>
Spec == Init /\ [][Next]_<<src, width, im, pc>>
Done == pc = "d"
\* ---------------- properties of the result (C06), as operators over a result r so that SegTrace can apply them to observations ----------------
RECURSIVE FlatSrc(_)
FlatSrc(j) == IF j > Len(src) THEN <<>> ELSE src[j].ws \o FlatSrc(j + 1)
RECURSIVE FlatOut(_, _)
ExpandTok(t) == IF t.k = "TC" THEN <<"T", "C">> ELSE <<t.k>>
RECURSIVE FlatToks(_)
FlatToks(ts) == IF ts = <<>> THEN <<>> ELSE ExpandTok(Head(ts)) \o FlatToks(Tail(ts))
FlatOut(r, j) == IF j > Len(r) THEN <<>> ELSE FlatToks(r[j].toks) \o FlatOut(r, j + 1)
WordsPreserved(r) == FlatOut(r, 1) = FlatSrc(1)
\* a source line that is unindented and consists of exactly one tag stays a line of its own, unindented, in order
TagOnlySrc == [j \in {x \in 1..Len(src) : ~src[x].ind /\ Len(src[x].ws) = 1 /\ IsTag(src[x].ws[1])} |-> src[j].ws[1]]
AloneOut(r, j) == r[j].ind = "" /\ Len(r[j].toks) = 1 /\ IsTag(r[j].toks[1].k)
\* (the order-preserving correspondence is checked as: the sequence of alone tag lines of the output has the alone source tag lines
\*  as a subsequence)
SelSeq(f) == LET dom == DOMAIN f IN [n \in 1..Cardinality(dom) |-> f[CHOOSE x \in dom : Cardinality({y \in dom : y < x}) = n - 1]]
SrcAlone == SelSeq(TagOnlySrc)
OutAlone(r) == SelSeq([j \in {x \in 1..Len(r) : AloneOut(r, x)} |-> r[j].toks[1].k])
RECURSIVE IsSubseq(_, _)
IsSubseq(a, b) == IF a = <<>> THEN TRUE ELSE IF b = <<>> THEN FALSE
                  ELSE IF Head(a) = Head(b) THEN IsSubseq(Tail(a), Tail(b)) ELSE IsSubseq(a, Tail(b))
TagLinesStayAlone(r) == im = "plain" => IsSubseq(SrcAlone, OutAlone(r))      \* (inside a list item no line is "unindented")
\* block content (list item / table row line) enclosed by tag lines is separated from them by a blank line
IsBlockLine(l) == l.toks # <<>> /\ (l.ind = "i" \/ (l.ind # "i" /\ (FirstK(l) = "P" \/ (FirstK(l) = "L" /\ ~l.toks[1].esc /\ Len(l.toks) > 1))))
BlockSeparated(r) == \A j \in 1..(Len(r) - 1) :
                        /\ (AloneOut(r, j) /\ IsBlockLine(r[j + 1]) /\ r[j + 1].ind # "i") => FALSE
                        /\ (IsBlockLine(r[j]) /\ r[j].ind # "i" /\ AloneOut(r, j + 1)) => FALSE
\* author-written separation between two tags of one source line: in this model source words are always separated by a space
\* (a "TC" pair is written "{% t %} {% /t %}"), so every glued pair of the output is a removed space -- finding D22
GluedPairs(r) == Cardinality({<<j, n>> \in (1..Len(r)) \X (1..MaxWords * MaxLines) : n <= Len(r[j].toks) /\ (r[j].toks[n].glue \/ r[j].toks[n].k = "TC")})
Report == (pc = "d" /\ DoDump) => PrintT(ToJson(<<"G", src, width, im, Result>>))
ModelProps == pc = "d" => WordsPreserved(Result) /\ TagLinesStayAlone(Result)
=========================================================================
