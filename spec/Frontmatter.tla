----------------------------- MODULE Frontmatter -----------------------------
(* YAML frontmatter (C07) at line-class granularity.
   A text is a sequence of pieces; piece i is [c |-> class, s |-> separator that follows it]:
     classes   "blank" (empty or spaces), "delim" (--- with optional surrounding spaces), "yaml" (anything else that
               may stand in a frontmatter: key: "value", ..., --- x, Markdown-looking text), "md" (body text);
     separators "LF", "CRLF", "X" (a character that str.splitlines() treats as a line boundary but that is NOT a
               line end: CR alone, VT, FF, FS, GS, RS, NEL, LS, PS), "EOF" (only after the last piece).
   Reference reading (the property): only LF and CRLF end a line; leading blank lines are skipped; the block runs
   from the first delimiter line to the next delimiter line; it is reproduced character for character except
   CRLF -> LF; an unclosed block means the whole text is returned unchanged (plus a final newline).
   Implementation-shaped machine: split_frontmatter with the line splitter given by constant Splitter:
     "splitlines" -- every separator is a line boundary (the code before the D11 repair),
     "lf"         -- only LF / CRLF are. *)
EXTENDS Naturals, Sequences, FiniteSets, TLC, Json
CONSTANTS MaxPieces, Classes, Seps, Splitter, DoDump
VARIABLES doc, pc, start, endi, res
vars == <<doc, pc, start, endi, res>>

\* the last piece is followed by EOF or by a final line end; no other piece is followed by EOF
InnerP == [c : Classes, s : Seps \ {"EOF"}]
LastP == [c : Classes, s : {"EOF", "LF"}]
Init == /\ \E n \in 1..MaxPieces : \E pre \in [1..(n - 1) -> InnerP], last \in LastP : doc = Append(pre, last)
        /\ pc = "split" /\ start = 0 /\ endi = 0 /\ res = <<>>

\* ---------- lines under a splitter: sequences of [lo, hi] piece ranges ----------
Ends(sp, i) == doc[i].s = "EOF" \/ doc[i].s \in {"LF", "CRLF"} \/ (sp = "splitlines" /\ doc[i].s = "X")
RECURSIVE LinesFrom(_, _, _)
LinesFrom(sp, lo, acc) ==
  IF lo > Len(doc) THEN acc
  ELSE LET hi == CHOOSE j \in lo..Len(doc) : Ends(sp, j) /\ \A m \in lo..(j - 1) : ~Ends(sp, m)
       IN LinesFrom(sp, hi + 1, Append(acc, [lo |-> lo, hi |-> hi]))
LinesOf(sp) == LinesFrom(sp, 1, <<>>)
\* class of a line as str.strip() sees it: X characters are whitespace for strip(), so a line made of several pieces
\* joined by X is a delimiter iff exactly one piece is a delimiter and the others are blank.  The reference classifies
\* lines the same way (X next to --- is surrounding whitespace, it is not treated as a line end); what differs between
\* the readings is only which separators END a line.
LineClassCode(l) == LET cs == {doc[i].c : i \in l.lo..l.hi} IN
                    IF cs = {"blank"} THEN "blank"
                    ELSE IF cs \subseteq {"blank", "delim"} /\ Cardinality({i \in l.lo..l.hi : doc[i].c = "delim"}) = 1 THEN "delim"
                    ELSE "other"
LineClassRef(l) == LineClassCode(l)

\* ---------- generic split over a line sequence with a class function ----------
FirstNonBlank(ls, cls(_)) == IF \E j \in 1..Len(ls) : cls(ls[j]) # "blank"
                             THEN CHOOSE j \in 1..Len(ls) : cls(ls[j]) # "blank" /\ \A m \in 1..(j - 1) : cls(ls[m]) = "blank"
                             ELSE 0
Closing(ls, cls(_), st) == IF \E j \in (st + 1)..Len(ls) : cls(ls[j]) = "delim"
                           THEN CHOOSE j \in (st + 1)..Len(ls) : cls(ls[j]) = "delim" /\ \A m \in (st + 1)..(j - 1) : cls(ls[m]) # "delim"
                           ELSE 0
\* result: [kind |-> "none" | "unclosed" | "closed", fm |-> line range, body |-> first body line]
SplitWith(ls, cls(_)) ==
  LET st == FirstNonBlank(ls, cls) IN
  IF st = 0 \/ cls(ls[st]) # "delim" THEN [kind |-> "none", lo |-> 0, hi |-> 0]
  ELSE LET cl == Closing(ls, cls, st) IN
       IF cl = 0 THEN [kind |-> "unclosed", lo |-> 0, hi |-> 0]
       ELSE [kind |-> "closed", lo |-> ls[st].lo, hi |-> ls[cl].hi]      \* piece range of the block

\* ---------- the machine: split_frontmatter as written ----------
CodeLines == LinesOf(Splitter)
Split == /\ pc = "split"
         /\ LET cls(l) == IF Splitter = "splitlines" THEN LineClassCode(l) ELSE LineClassRef(l)
            IN res' = SplitWith(CodeLines, cls)
         /\ pc' = "done" /\ UNCHANGED <<doc, start, endi>>
Next == Split
Spec == Init /\ [][Next]_vars
Done == pc = "done"

\* ---------- the property ----------
Ref == SplitWith(LinesOf("lf"), LineClassRef)
\* separators inside the reproduced block: the code joins its lines with LF
HasXInside(lo, hi) == \E i \in lo..(hi - 1) : doc[i].s = "X"
HasXAfter(hi) == \E i \in hi..Len(doc) : doc[i].s = "X"
\* FmExact: same block as the reference, and no separator other than CRLF is rewritten inside it
FmExact == Done => /\ res.kind = Ref.kind
                   /\ res.kind = "closed" => (res.lo = Ref.lo /\ res.hi = Ref.hi /\ (Splitter = "splitlines" => ~HasXInside(res.lo, res.hi)))
\* BodyIndependent: the text handed to the body formatter is the original remainder (up to CRLF -> LF)
BodyIndependent == Done /\ res.kind = "closed" => (Splitter = "splitlines" => ~HasXAfter(res.hi))
\* D11 trigger: an X separator anywhere in a text that the code reads as having frontmatter
Trig11 == \E i \in 1..Len(doc) : doc[i].s = "X"
FmExactK == Done => (Trig11 \/ (res.kind = Ref.kind /\ (res.kind = "closed" => res.lo = Ref.lo /\ res.hi = Ref.hi)))
Dump == (Done /\ DoDump) => PrintT(ToJson(<<"F", doc, res, Ref>>))
=============================================================================
