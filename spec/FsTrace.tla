------------------------------ MODULE FsTrace ------------------------------
(* Validation of real system-call logs (strace) of the flowmark CLI against the file-system properties of
   AtomicWrite.tla (leg C of C14).  The log is applied event by event with *generic* file-system semantics
   (open/O_TRUNC/O_CREAT, write, rename, unlink, truncate) -- not with the protocol's own actions -- so that
   an implementation that writes differently (e.g. directly into the target) is still interpreted correctly,
   and the invariants of AtomicWrite are evaluated after EVERY event: every event boundary is a crash point.
   Constants Mode/Backup/NFiles/OutExists are emitted literally per batch (one batch per configuration).

   Trace: [id, bad : Seq(BOOLEAN), events : Seq(event)], event =
     [op, r, f, r2, f2, w, trunc, full, ok, code]
       op \in {"open","write","close","rename","unlink","trunc","exit","killed"}; r/r2 \in Roles \cup {"other"};
       f/f2 file index; w = opened for writing; trunc = O_TRUNC or length 0; full = bytes written to the file
       since it was last emptied equal the length of the formatted result; ok = syscall succeeded. *)
EXTENDS AtomicWrite, IOUtils
Traces == JsonDeserialize(IOEnv.TRACE_FILE)
VARIABLES tid, l, viol, touched
tvars == <<vars, tid, l, viol, touched>>
T == Traces[tid]
E == T.events[l]

TraceInit == /\ tid \in 1..Len(Traces) /\ l = 1 /\ viol = <<>> /\ touched = {}
             /\ fs = [r \in Roles |-> [f \in Files |-> IF r = "target" THEN InitTarget ELSE "Absent"]]
             /\ pc = "trace" /\ cur = 1 /\ status = "running" /\ hist = <<>>
             /\ bad = {f \in Files : Traces[tid].bad[f]}

Known(r, f) == r \in Roles /\ f \in Files
Apply(e) ==
  IF ~e.ok \/ ~Known(e.r, e.f) THEN fs
  ELSE CASE e.op = "open" /\ e.w /\ (e.trunc \/ fs[e.r][e.f] = "Absent") -> [fs EXCEPT ![e.r][e.f] = "Empty"]
         [] e.op = "write" -> [fs EXCEPT ![e.r][e.f] = IF e.full THEN "New" ELSE "Partial"]
         [] e.op = "trunc" -> [fs EXCEPT ![e.r][e.f] = IF e.trunc THEN "Empty" ELSE "Partial"]
         [] e.op = "rename" /\ Known(e.r2, e.f2) -> [fs EXCEPT ![e.r2][e.f2] = fs[e.r][e.f], ![e.r][e.f] = "Absent"]
         [] e.op = "rename" -> [fs EXCEPT ![e.r][e.f] = "Absent"]
         [] e.op = "unlink" -> [fs EXCEPT ![e.r][e.f] = "Absent"]
         [] OTHER -> fs
\* a rename from an unknown path onto a known one replaces it by foreign content
ApplyIn(e) == IF e.ok /\ e.op = "rename" /\ ~Known(e.r, e.f) /\ Known(e.r2, e.f2)
              THEN [fs EXCEPT ![e.r2][e.f2] = "Partial"] ELSE Apply(e)

Invs == <<<<"TargetIntact", TargetIntact>>, <<"NoTouchWithoutInplace", NoTouchWithoutInplace /\ (Mode = "stdout" => touched = {})>>,
          <<"FailureAtomic", FailureAtomic>>, <<"PerFileAllOrNothing", PerFileAllOrNothing>>, <<"Untouched", Untouched>>>>
Broken == {k \in 1..Len(Invs) : ~Invs[k][2]}
TraceNext ==
  /\ l <= Len(T.events)
  /\ fs' = ApplyIn(E)
  /\ cur' = IF Known(E.r, E.f) /\ E.f > cur THEN E.f ELSE cur
  /\ status' = IF E.op = "exit" THEN (IF E.code = 0 THEN "done" ELSE "failed")
               ELSE IF E.op = "killed" THEN "crashed" ELSE status
  /\ touched' = IF E.op = "open" /\ E.w /\ E.ok /\ Known(E.r, E.f) THEN touched \cup {<<E.r, E.f>>} ELSE touched
  /\ l' = l + 1
  /\ UNCHANGED <<pc, bad, hist, tid>>
  /\ viol' = viol       \* filled by Observe (a state predicate cannot assign); kept for the record shape
TraceSpec == TraceInit /\ [][TraceNext]_tvars

\* every state is a crash point: report each broken invariant with the number of events applied so far
Observe == /\ (Broken # {} => PrintT(ToJson(<<"V", T.id, l - 1, [k \in Broken |-> Invs[k][1]], fs>>)))
           /\ (l > Len(T.events) => PrintT(ToJson(<<"R", T.id, fs, status>>)))
=============================================================================
