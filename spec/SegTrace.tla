------------------------------ MODULE SegTrace ------------------------------
(* Validation of observed results of the tag-aware line wrapper (leg C of C06).
   Trace: [id, src, width, im, ok, obs]  obs = the real wrapper's output parsed into the line records of Segments.Result
   (paired tags already expanded to T followed by a glued C); ok = the output parsed as known tokens, every tag in one piece.
   Decided: the machine's Result (paired tags expanded the same way) equals obs (drift otherwise); on obs alone: every atomic
   token whole (ok), words preserved in order, unindented tag-only lines stay alone and unindented, block lines separated from
   tag lines by a blank line; number of glued tag pairs (author-written spaces removed: finding D22). *)
EXTENDS Segments, IOUtils
Traces == JsonDeserialize(IOEnv.TRACE_FILE)
VARIABLE tid
TR == Traces[tid]
TraceInit == /\ tid \in 1..Len(Traces) /\ src = Traces[tid].src /\ width = Traces[tid].width /\ im = Traces[tid].im /\ pc = "s"
TraceSpec == TraceInit /\ [][Next /\ UNCHANGED tid]_<<src, width, im, pc, tid>>
RECURSIVE CanonToks(_)
CanonToks(ts) == IF ts = <<>> THEN <<>>
                 ELSE (IF Head(ts).k = "TC"
                       THEN <<[k |-> "T", glue |-> Head(ts).glue, esc |-> FALSE], [k |-> "C", glue |-> TRUE, esc |-> FALSE]>>
                       ELSE <<[k |-> Head(ts).k, glue |-> Head(ts).glue, esc |-> Head(ts).esc]>>) \o CanonToks(Tail(ts))
Canon(r) == [j \in 1..Len(r) |-> [ind |-> r[j].ind, toks |-> CanonToks(r[j].toks)]]
O == TR.obs
Glued(r) == Cardinality({<<j, n>> \in (1..Len(r)) \X (1..8) : n <= Len(r[j].toks) /\ r[j].toks[n].glue})
TraceReport == Done => PrintT(ToJson(<<"R", TR.id, TR.ok /\ Canon(Result) = O, TR.ok,
                                       IF TR.ok THEN WordsPreserved(O) ELSE FALSE, IF TR.ok THEN TagLinesStayAlone(O) ELSE FALSE,
                                       IF TR.ok THEN BlockSeparated(O) ELSE FALSE, IF TR.ok THEN Glued(O) ELSE 0>>))
=============================================================================
