---------------------------- MODULE SentenceTrace ----------------------------
(* Batch validation of observations of line_wrap_by_sentence / reformat_text(semantic=True) (leg C of C11).
   kind "single": [id, kind, words, width, minlen, ii, si, md, ok, out, steps]
        out    = observed lines ([w, e] per word); steps[s] = observed lines for the paragraph cut after its
                 s-th sentence (the abstract state of the machine after each Sentence action, obtained by
                 calling the real function on the prefix -- no hook needed);
   kind "pair":   additionally words2, ok2, out2, j: a second paragraph that differs from the first inside
                 sentence j only.
   Decided per trace: (1) acceptance by the implementation-shaped machine, step by step (variable acc);
   (2) property-level predicates P1, P2, Bounded, Lossless, Local on the observation only. *)
EXTENDS SentenceWrap, IOUtils
Traces == JsonDeserialize(IOEnv.TRACE_FILE)
VARIABLES tid, acc
tvars == <<vars, tid, acc>>
T == Traces[tid]

TraceInit == /\ tid \in 1..Len(Traces)
             /\ words = Traces[tid].words /\ width = Traces[tid].width /\ minlen = Traces[tid].minlen
             /\ ii = Traces[tid].ii /\ si = Traces[tid].si /\ md = Traces[tid].md
             /\ s = 1 /\ lines = <<>> /\ acc = TRUE
             /\ pc = IF Traces[tid].width <= 0 THEN "nowrap" ELSE "loop"
TraceSentence == Sentence /\ acc' = (acc /\ (Len(T.steps) >= s => lines' = T.steps[s])) /\ UNCHANGED tid
TraceFinish == Finish /\ acc' = (acc /\ lines = T.out) /\ UNCHANGED tid
TraceNoWrap == NoWrap /\ acc' = (lines' = T.out) /\ UNCHANGED tid
TraceNext == TraceSentence \/ TraceFinish \/ TraceNoWrap
TraceSpec == TraceInit /\ [][TraceNext]_tvars

L == T.out
OkLines(f(_)) == IF T.ok /\ width > 0 THEN [j \in 1..Len(L) |-> f(j)] ELSE <<>>
BL(j) == BoundedLine(CX, L, j)
P1L(j) == j = Len(L) \/ P1Line(CX, L, j)
P2L(j) == P2Line(CX, L, j)
T14(j) == Trig14(CX, L, j)
T13(j) == Trig13(CX, L, j)
\* escapes only on line-leading marker words; (C01) every marker word starting a continuation line is escaped
EscOnly == \A j \in 1..Len(L) : \A t \in 1..Len(L[j]) : L[j][t].e => (t = 1 /\ Escapable(words[L[j][t].w]))
NoHazard == \A j \in 2..Len(L) : (md /\ Escapable(words[L[j][1].w])) => L[j][1].e
PairLocal == IF T.kind = "pair" /\ T.ok /\ T.ok2 /\ width > 0
             THEN LET cx2 == [CX EXCEPT !.ws = T.words2]
                  IN <<Local([cx |-> CX, ls |-> T.out], [cx |-> cx2, ls |-> T.out2], T.j), RunAll(cx2) = T.out2>>
             ELSE <<TRUE, TRUE>>
Report == Done =>
   PrintT(ToJson(<<"R", T.id, acc, T.ok /\ LosslessP(CX, L), OkLines(BL), OkLines(P1L), OkLines(P2L),
                   OkLines(T14), OkLines(T13), width <= 0 => Len(L) <= 1,
                   IF T.ok THEN EscOnly ELSE FALSE, IF T.ok THEN NoHazard ELSE FALSE, PairLocal>>))
=============================================================================
