----------------------------- MODULE RenderRead -----------------------------
(* Composition Read o Render: the block-structure half of C01/C02 decided inside the model.
   For every document (token stream) of the bounded space, the lines emitted by the renderer machine are read
   back with CommonMark's container rules (Reader) and compared with the document. *)
EXTENDS Render, Reader, Json
CONSTANT DoDump
LinesPB == [j \in 1..Len(lines) |-> [p |-> lines[j].p, b |-> lines[j].b]]
RECURSIVE NoB(_)
NoB(ts) == IF ts = <<>> THEN <<>>
           ELSE IF Head(ts) = "B" THEN NoB(Tail(ts))
           ELSE <<IF Head(ts) \in {"Lt(", "Ll("} THEN "L(" ELSE Head(ts)>> \o NoB(Tail(ts))
RECURSIVE Looseness(_)
Looseness(ts) == IF ts = <<>> THEN <<>>
                 ELSE IF Head(ts) = "Lt(" THEN <<FALSE>> \o Looseness(Tail(ts))
                 ELSE IF Head(ts) = "Ll(" THEN <<TRUE>> \o Looseness(Tail(ts))
                 ELSE Looseness(Tail(ts))
RD == Read(LinesPB)
RoundTripStruct == RD.toks = NoB(toks)
RoundTripTight == RD.loose = Looseness(toks)
\* ---- triggers of the known findings (necessary conditions, on the token stream) ----
\* D4 family (D4, D4b, D31): a heading inside a quote or list item
Opens(ts, n) == Cardinality({j \in 1..n : ts[j] \in {"Q(", "Lt(", "Ll(", "I("}})
Closes(ts, n) == Cardinality({j \in 1..n : ts[j] = ")"})
HeadingInContainer == \E n \in 1..Len(toks) : toks[n] = "H" /\ Opens(toks, n) > Closes(toks, n)
\* D6: a list that is the first child of a list item
ListFirstInItem == \E n \in 1..(Len(toks) - 1) : toks[n] = "I(" /\ toks[n + 1] \in {"Lt(", "Ll("}
RoundTripK == mode = "done" => (RoundTripStruct /\ RoundTripTight) \/ HeadingInContainer \/ ListFirstInItem
PrefixK == mode = "done" => PrefixOK \/ HeadingInContainer \/ ListFirstInItem
DumpDoc == (mode = "done" /\ DoDump) =>
             PrintT(ToJson(<<"D", toks, LinesPB, PrefixOK, RoundTripStruct, RoundTripTight>>))
=============================================================================
