---------------------------- MODULE InlineTrace ----------------------------
(* Validation of observed inline formatting (leg C of the inline family of C01 / C02).
   Trace: [id, src, t1, out, t2m, t2i, out2]
     src  the source symbols                       t1 what both real parsers read from the source text (canonical stream)
     out  flowmark's output, tokenised to symbols   t2m / t2i what marko / markdown-it read from the output;  out2 = symbols of a second pass
   Decided per trace:
     accRead    the reader machine reads t1 from src               (else drift: the model of CommonMark's algorithm is off)
     accRender  the renderer machine emits exactly out             (else drift: the model of the renderer is off)
     accRead2   the reader machine reads what one of the parsers reads from the observed out
     sameM/sameI  t2m = t1, t2i = t1   -- the property (C01): re-parsing the output gives the same inline structure
     accRender2 the renderer machine, fed the reader machine's reading of out, emits out2
     idem       out2 = out     -- the property (C02)
     modelRT    the machine itself predicts same (used only to attribute a failure to the recorded finding)           *)
EXTENDS Inline, IOUtils
Traces == JsonDeserialize(IOEnv.TRACE_FILE)
VARIABLE tid
TR == Traces[tid]
TraceInit == /\ tid \in 1..Len(Traces) /\ src = Traces[tid].src /\ phase = "read1" /\ items = Tok(Traces[tid].src, 1) /\ i = 1
             /\ tree1 = <<>> /\ out = <<>> /\ tree2 = <<>>
TraceSpec == TraceInit /\ [][Next /\ UNCHANGED tid]_<<vars, tid>>
X(seq) == [j \in 1..Len(seq) |-> IF seq[j] = "x" THEN "*" ELSE seq[j]]      \* an escaped star reads as the text character
ReadObs == X(Flat(ReadAll(TR.out)))
TraceReport == Done => PrintT(ToJson(<<"R", TR.id, X(Flat(tree1)) = TR.t1, out = TR.out, ReadObs \in {TR.t2m, TR.t2i},
                                       TR.t2m = TR.t1, TR.t2i = TR.t1, TR.out2 = TR.out, Flat(tree2) = Flat(tree1),
                                       Emit(ReadAll(TR.out), "", "") = TR.out2>>))
=============================================================================
