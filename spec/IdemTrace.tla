------------------------------ MODULE IdemTrace ------------------------------
(* Validation of two-pass observations (leg C of C02): o1 = f(x, opts), o2 = f(o1, opts).
   Trace: [id, fam, toks2, lines1, lines2, d1, d2]
     lines1 / lines2 = o1 / o2 abstracted to [p, b] line records (family S alphabet; <<>> otherwise),
     toks2 = real token stream of o1 (the input of the second pass), d1 / d2 = digests of the bytes of o1 / o2.
   Verdict: Idempotent == d1 = d2 (and the abstracted lines agree).  For family S the renderer machine is run on toks2:
   the second pass must be a behaviour of the machine as well, and in the model Render(Read+(Render(d))) = Render(d)
   shows up as lines2 = lines1. *)
EXTENDS RenderRead, IOUtils
Traces == JsonDeserialize(IOEnv.TRACE_FILE)
VARIABLE tid
TR == Traces[tid]
IsS == TR.fam = "S"
TraceInit == /\ tid \in 1..Len(Traces)
             /\ toks = (IF Traces[tid].fam = "S" THEN Traces[tid].toks2 ELSE <<"P">>) /\ open = <<>> /\ mode = "render" /\ k = 1
             /\ prefix = <<>> /\ second = <<>> /\ suppress = TRUE /\ skip = FALSE /\ tight = FALSE
             /\ stack = <<>> /\ ctx = <<>> /\ lines = <<>>
TraceSpec == TraceInit /\ [][(RenderStep \/ Finish) /\ UNCHANGED tid]_<<vars, tid>>
TraceReport == mode = "done" =>
   PrintT(ToJson(<<"R", TR.id, IF IsS THEN LinesPB = TR.lines2 ELSE TRUE, TR.d1 = TR.d2, TR.lines1 = TR.lines2>>))
=============================================================================
