------------------------------- MODULE Inline -------------------------------
(* Inline emphasis: CommonMark's delimiter-run reader and flowmark's inline renderer (render_emphasis = "*" children "*",
   render_strong_emphasis = "**" children "**", raw text and escaped characters verbatim) as one machine (C01, inline half).

   A source is a string over the symbols
       "w" word (alphanumeric)   "s" one space   "*" "_" one delimiter character   "x" an escaped star (backslash + star)
   The machine   read1: tokenise src (delimiter runs, flanking) and run process_emphasis one closer at a time  -> tree1
                 render: emit the tree with the renderer's marker policy (constant Marker)                      -> out
                 read2: the same reader on out                                                                  -> tree2
   RoundTrip == tree2 = tree1   (re-parsing the output gives the same inline structure; marker spelling is not part of it)

   Marker = "star"  : the renderer of /repo as pinned (always "*")
   Marker = "alt"   : design of a repair, explored here first: an emphasis whose first or last emitted neighbour would fuse with
                      its own delimiter run into a different run is spelled with "_" when "_" can open and close at that place *)
EXTENDS Naturals, Sequences, FiniteSets, TLC, Json
CONSTANTS MaxLen, Syms, Marker, DoDump
VARIABLES src, phase, items, i, tree1, out, tree2
vars == <<src, phase, items, i, tree1, out, tree2>>

Strings == UNION {[1..n -> Syms] : n \in 1..MaxLen}
WellFormed(s) == /\ s[1] # "s" /\ s[Len(s)] # "s"
                 /\ \A j \in 1..(Len(s) - 1) : ~(s[j] = "s" /\ s[j + 1] = "s")
                 /\ \A j \in 1..(Len(s) - 1) : ~(s[j] = "w" /\ s[j + 1] = "w")        \* two adjacent words are one word

\* ---------------- tokeniser: delimiter runs with the classes of their neighbours ----------------
Class(sym) == IF sym = "w" THEN "a" ELSE IF sym = "s" THEN "ws" ELSE "p"
Leaf(k) == [k |-> k, c |-> "", n |-> 0, orig |-> 0, open |-> FALSE, close |-> FALSE, kids |-> <<>>]
RECURSIVE RunLen(_, _)
RunLen(s, j) == IF j < Len(s) /\ s[j + 1] = s[j] THEN 1 + RunLen(s, j + 1) ELSE 1
Delim(s, j, n) ==
    LET pre == IF j = 1 THEN "ws" ELSE Class(s[j - 1])
        post == IF j + n > Len(s) THEN "ws" ELSE Class(s[j + n])
        lf == post # "ws" /\ (post # "p" \/ pre \in {"ws", "p"})
        rf == pre # "ws" /\ (pre # "p" \/ post \in {"ws", "p"})
        c == s[j]
    IN [k |-> "d", c |-> c, n |-> n, orig |-> n,
        open |-> IF c = "*" THEN lf ELSE lf /\ (~rf \/ pre = "p"),
        close |-> IF c = "*" THEN rf ELSE rf /\ (~lf \/ post = "p"), kids |-> <<>>]
RECURSIVE Tok(_, _)
Tok(s, j) == IF j > Len(s) THEN <<>>
             ELSE IF s[j] \in {"*", "_"} THEN LET n == RunLen(s, j) IN <<Delim(s, j, n)>> \o Tok(s, j + n)
             ELSE <<Leaf(s[j])>> \o Tok(s, j + 1)

\* ---------------- process_emphasis, one closer per step ----------------
AsText(d) == [d EXCEPT !.k = "t", !.open = FALSE, !.close = FALSE]
Textify(seq) == [j \in 1..Len(seq) |-> IF seq[j].k = "d" THEN AsText(seq[j]) ELSE seq[j]]
Rule3OK(op, cl) == ~((op.close \/ cl.open) /\ (op.orig + cl.orig) % 3 = 0 /\ ~(op.orig % 3 = 0 /\ cl.orig % 3 = 0))
Max(S) == CHOOSE x \in S : \A y \in S : y <= x
CandsOf(it, ix) == {j \in 1..(ix - 1) : it[j].k = "d" /\ it[j].c = it[ix].c /\ it[j].open /\ it[j].n > 0 /\ Rule3OK(it[j], it[ix])}
IsCloserAt(it, ix) == ix <= Len(it) /\ it[ix].k = "d" /\ it[ix].close /\ it[ix].n > 0
\* one step of process_emphasis as a function of (items, position): used by the actions below and, iterated, by the trace specification
StepKind(it, ix) == IF ~IsCloserAt(it, ix) THEN "skip" ELSE IF CandsOf(it, ix) = {} THEN "noopener" ELSE "match"
StepFn(it, ix) ==
    CASE StepKind(it, ix) = "skip" -> <<it, ix + 1>>
      [] StepKind(it, ix) = "noopener" -> <<IF it[ix].open THEN it ELSE [it EXCEPT ![ix] = AsText(it[ix])], ix + 1>>
      [] OTHER -> LET j == Max(CandsOf(it, ix))
                      use == IF it[j].n >= 2 /\ it[ix].n >= 2 THEN 2 ELSE 1
                      node == [Leaf(IF use = 2 THEN "S" ELSE "E") EXCEPT !.kids = Textify(SubSeq(it, j + 1, ix - 1))]
                      op == [it[j] EXCEPT !.n = @ - use]
                      cl == [it[ix] EXCEPT !.n = @ - use]
                      left == SubSeq(it, 1, j - 1) \o (IF op.n > 0 THEN <<op>> ELSE <<>>)
                  IN <<left \o <<node>> \o (IF cl.n > 0 THEN <<cl>> ELSE <<>>) \o SubSeq(it, ix + 1, Len(it)), Len(left) + 2>>
RECURSIVE ReadFrom(_, _)
ReadFrom(it, ix) == IF ix > Len(it) THEN Textify(it) ELSE LET r == StepFn(it, ix) IN ReadFrom(r[1], r[2])
ReadAll(sy) == ReadFrom(Tok(sy, 1), 1)
Skip == i <= Len(items) /\ StepKind(items, i) = "skip" /\ items' = StepFn(items, i)[1] /\ i' = StepFn(items, i)[2]
NoOpener == i <= Len(items) /\ StepKind(items, i) = "noopener" /\ items' = StepFn(items, i)[1] /\ i' = StepFn(items, i)[2]
Match == i <= Len(items) /\ StepKind(items, i) = "match" /\ items' = StepFn(items, i)[1] /\ i' = StepFn(items, i)[2]
ProcStep == Skip \/ NoOpener \/ Match

\* ---------------- canonical form of a tree: preorder stream, text delimiters one character at a time ----------------
RECURSIVE Flat(_), Chars(_, _)
Chars(c, n) == IF n = 0 THEN <<>> ELSE <<c>> \o Chars(c, n - 1)
Flat(seq) == IF seq = <<>> THEN <<>>
             ELSE LET h == Head(seq) IN
                  (CASE h.k \in {"E", "S"} -> <<h.k \o "(">> \o Flat(h.kids) \o <<")">>
                     [] h.k \in {"d", "t"} -> Chars(h.c, h.n)
                     [] OTHER -> <<h.k>>) \o Flat(Tail(seq))

\* ---------------- renderer ----------------
\* what the first / last emitted symbol of a node sequence is (to see which delimiter runs would fuse)
RECURSIVE Emit(_, _, _)
\* Emit(seq, before, after): symbols for seq; `before` / `after` are the symbols adjacent to the whole sequence ("" = line end)
First(sy, dflt) == IF sy = <<>> THEN dflt ELSE sy[1]
Last(sy, dflt) == IF sy = <<>> THEN dflt ELSE sy[Len(sy)]
EmitNode(h, before, after) ==
    IF h.k \in {"E", "S"} THEN
        LET inner(m) == Emit(h.kids, m, m)
            star == inner("*")
            \* "alt": use "_" when a neighbouring symbol (outside or the first/last inside) is "*", and "_" is usable here:
            \* the opening "_" must not follow a word and the closing "_" must not precede one (intraword "_" is no delimiter)
            wantAlt == Marker = "alt" /\ ("*" \in {before, after, First(star, ""), Last(star, "")})
                       /\ before # "w" /\ after # "w" /\ before # "_" /\ after # "_"
                       /\ First(inner("_"), "") # "_" /\ Last(inner("_"), "") # "_"
            m == IF wantAlt THEN "_" ELSE "*"
            mk == IF h.k = "S" THEN <<m, m>> ELSE <<m>>
        IN mk \o inner(m) \o mk
    ELSE IF h.k \in {"d", "t"} THEN Chars(h.c, h.n) ELSE <<h.k>>
Emit(seq, before, after) ==
    IF seq = <<>> THEN <<>>
    ELSE LET restAfter == IF Len(seq) = 1 THEN after ELSE "?"      \* resolved below: the next sibling's first symbol
             h == Head(seq)
             rest == Emit(Tail(seq), "?", after)                   \* siblings to the right do not depend on `before` in "star" mode
             nxt == First(rest, after)
             me == EmitNode(h, before, nxt)
         IN me \o Emit(Tail(seq), Last(me, before), after)

Init == /\ src \in {s \in Strings : WellFormed(s)} /\ phase = "read1" /\ items = Tok(src, 1) /\ i = 1
        /\ tree1 = <<>> /\ out = <<>> /\ tree2 = <<>>
Read1 == /\ phase = "read1" /\ ProcStep /\ UNCHANGED <<src, phase, tree1, out, tree2>>
EndRead1 == /\ phase = "read1" /\ i > Len(items) /\ tree1' = Textify(items) /\ phase' = "render" /\ UNCHANGED <<src, items, i, out, tree2>>
Render == /\ phase = "render" /\ out' = Emit(tree1, "", "") /\ phase' = "read2"
          /\ items' = Tok(Emit(tree1, "", ""), 1) /\ i' = 1 /\ UNCHANGED <<src, tree1, tree2>>
Read2 == /\ phase = "read2" /\ ProcStep /\ UNCHANGED <<src, phase, tree1, out, tree2>>
EndRead2 == /\ phase = "read2" /\ i > Len(items) /\ tree2' = Textify(items) /\ phase' = "done" /\ UNCHANGED <<src, items, i, tree1, out>>
Next == Read1 \/ EndRead1 \/ Render \/ Read2 \/ EndRead2
Spec == Init /\ [][Next]_vars

Done == phase = "done"
RoundTrip == Done => Flat(tree2) = Flat(tree1)
\* the renderer never invents or drops text: erasing the emphasis markers of out gives the text of the tree
Dump == (Done /\ DoDump) => PrintT(ToJson(<<"I", src, Flat(tree1), out, Flat(tree2), Flat(tree2) = Flat(tree1)>>))
=============================================================================
