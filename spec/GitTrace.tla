------------------------------ MODULE GitTrace ------------------------------
(* Validation of observed listings against git and against the gitignore model (leg C of C18).
   Trace: [id, root, d, git, fm, fm_off]   root / d = pattern ids (lines) of the .gitignore at the traversal root and in d/;
   git = per file of FileSeq: listed by `git ls-files -co --exclude-standard`; fm = listed by flowmark --list-files;
   fm_off = listed by flowmark with --no-respect-gitignore.
   Verdict: fm = git (both real) and fm_off lists everything.  Model drift (diagnostic): ListedVec # git. *)
EXTENDS Gitignore, IOUtils
Traces == JsonDeserialize(IOEnv.TRACE_FILE)
VARIABLE tid
T == Traces[tid]
TraceInit == /\ tid \in 1..Len(Traces) /\ pc = "start"
             /\ gi = [b \in IgnoreDirs |-> IF b = <<>> THEN Traces[tid].root ELSE Traces[tid].d]
TraceSpec == TraceInit /\ [][Next /\ UNCHANGED tid]_<<gi, pc, tid>>
AgreeVec == [i \in 1..Len(FileSeq) |-> T.fm[i] = T.git[i]]
TraceReport == pc = "done" => PrintT(ToJson(<<"R", T.id, ListedVec = T.git, AgreeVec,
                                              \A i \in 1..Len(FileSeq) : T.fm_off[i], ListedVec>>))
=============================================================================
