------------------------------- MODULE Resolve -------------------------------
(* File discovery (C17): FileResolver.resolve over a fixed universe of paths.

   Universe (see harness/props/c17.py for the materialisation; sizes are relative to the limit L):
     1 a.md                 2 b.txt               3 big.md (L+1 bytes)   4 eq.md (exactly L bytes)
     5 ign.md (matched by the rule "ign.md" of .flowmarkignore)          6 node_modules/x.md
     7 sub/c.md             8 sub/deep/d.md       9 drafts/e.md         13 sub/f.txt
    17 other/sub/c2.md     18 other/keep.md     19 other/sub/ign.md   (a second project directory with its own .flowmarkignore: "sub/")
    10 ln_in.md  -> a.md (symlink to a file inside)     11 ln_out.md -> a file outside the tree ("OUT")
    12 ln_dangling.md -> nothing                        ln_dir -> sub (symlink to a directory)
    16 ln_big.md -> big.md (symlink to the oversized file)
   Settings: extinc (extend-include *.txt), excl (exclude = ["drafts/"], replacing the defaults, which contain
     node_modules/), extexcl (extend-exclude: none / deep/ / the path pattern sub/deep/), force (force-exclude), limit (files-max-size = L, else 0 = none),
     toolign (.flowmarkignore present at the root).
   Arguments: sequences over Args.  The result is modelled as the set of identities of the resolved files
   (a symlink resolves to its target).

   Two things are specified:
     Must/May  -- the declarative reading of the property: Must \subseteq result \subseteq Must \cup May;
     the machine -- resolve() as implemented: one action per argument (ArgFile / ArgDir / ArgGlob) with `seen`
                  and `result`, then Sort.  The constants GlobFilters / WalkSkipsLinks / ForceAppliesIgnore describe
                  the implementation (FALSE = the behaviour of a known finding, see known_findings.json). *)
EXTENDS Naturals, Sequences, FiniteSets, TLC, Json
CONSTANTS MaxArgs, GlobFilters, WalkSkipsLinks, ForceAppliesIgnore, DoDump
VARIABLES st, args, k, seen, result, pc
vars == <<st, args, k, seen, result, pc>>

U == [i \in 1..19 |->
       CASE i = 1  -> [name |-> "a.md", dir |-> <<>>, ext |-> "md", size |-> "small", link |-> "none", to |-> 0]
         [] i = 2  -> [name |-> "b.txt", dir |-> <<>>, ext |-> "txt", size |-> "small", link |-> "none", to |-> 0]
         [] i = 3  -> [name |-> "big.md", dir |-> <<>>, ext |-> "md", size |-> "big", link |-> "none", to |-> 0]
         [] i = 4  -> [name |-> "eq.md", dir |-> <<>>, ext |-> "md", size |-> "eq", link |-> "none", to |-> 0]
         [] i = 5  -> [name |-> "ign.md", dir |-> <<>>, ext |-> "md", size |-> "small", link |-> "none", to |-> 0]
         [] i = 6  -> [name |-> "x.md", dir |-> <<"node_modules">>, ext |-> "md", size |-> "small", link |-> "none", to |-> 0]
         [] i = 7  -> [name |-> "c.md", dir |-> <<"sub">>, ext |-> "md", size |-> "small", link |-> "none", to |-> 0]
         [] i = 8  -> [name |-> "d.md", dir |-> <<"sub", "deep">>, ext |-> "md", size |-> "small", link |-> "none", to |-> 0]
         [] i = 9  -> [name |-> "e.md", dir |-> <<"drafts">>, ext |-> "md", size |-> "small", link |-> "none", to |-> 0]
         [] i = 10 -> [name |-> "ln_in.md", dir |-> <<>>, ext |-> "md", size |-> "small", link |-> "file", to |-> 1]
         [] i = 11 -> [name |-> "ln_out.md", dir |-> <<>>, ext |-> "md", size |-> "small", link |-> "file", to |-> 99]
         [] i = 12 -> [name |-> "ln_dangling.md", dir |-> <<>>, ext |-> "md", size |-> "small", link |-> "dangling", to |-> 98]
         [] i = 13 -> [name |-> "f.txt", dir |-> <<"sub">>, ext |-> "txt", size |-> "small", link |-> "none", to |-> 0]
         \* a directory whose NAME looks like an included file: include patterns apply to file names, not to the directories above them
         [] i = 14 -> [name |-> "raw.dat", dir |-> <<"notes.md">>, ext |-> "dat", size |-> "small", link |-> "none", to |-> 0]
         [] i = 15 -> [name |-> "in.md", dir |-> <<"notes.md">>, ext |-> "md", size |-> "small", link |-> "none", to |-> 0]
         \* a symlink to the oversized file: the size that counts is the size of the file that would be formatted
         [] i = 16 -> [name |-> "ln_big.md", dir |-> <<>>, ext |-> "md", size |-> "big", link |-> "file", to |-> 3]
         \* a second project directory with its OWN .flowmarkignore (rule "sub/"): the ignore file that counts is the one found from the root of
         \* the walk / glob, so other/sub/c2.md is dropped when reached from "other" and kept when reached from "."
         [] i = 17 -> [name |-> "c2.md", dir |-> <<"other", "sub">>, ext |-> "md", size |-> "small", link |-> "none", to |-> 0]
         [] i = 18 -> [name |-> "keep.md", dir |-> <<"other">>, ext |-> "md", size |-> "small", link |-> "none", to |-> 0]
         \* dropped by the tree's rule "ign.md" when reached from ".", by other's rule "sub/" when reached from "other", and kept when reached from
         \* "other/sub" (the nearest ignore file upwards is other's, whose "sub/" names nothing below that root)
         [] i = 19 -> [name |-> "ign.md", dir |-> <<"other", "sub">>, ext |-> "md", size |-> "small", link |-> "none", to |-> 0]]
Ids == 1..19
Args == {".", "sub", "ln_dir", "drafts", "other", "other/sub", "other/**/*.md", "a.md", "./a.md", "ABS/sub/../a.md", "node_modules/x.md", "big.md", "ln_big.md", "ign.md", "drafts/e.md", "*.md", "**/*.md", "sub/*"}
Settings == [extinc : BOOLEAN, excl : BOOLEAN, extexcl : {"none", "base", "path"}, force : BOOLEAN, limit : BOOLEAN, toolign : BOOLEAN]

Target(i) == IF U[i].link = "none" THEN i ELSE U[i].to          \* identity after Path.resolve()
IsPrefix(a, b) == Len(a) <= Len(b) /\ SubSeq(b, 1, Len(a)) = a
IncludeOK(i) == U[i].ext = "md" \/ (st.extinc /\ U[i].ext = "txt")
\* extexcl = "base": extend-exclude deep/ (a directory name, excluded wherever it occurs);
\* extexcl = "path": extend-exclude sub/deep/ (a path pattern: matched against the path relative to the ROOT of the walk or glob,
\*                   so the same directory is excluded when reached from "." and not excluded when reached from "sub")
ExclDirs == (IF st.excl THEN {"drafts"} ELSE {"node_modules"}) \cup (IF st.extexcl = "base" THEN {"deep"} ELSE {})
\* some directory component strictly below the walk root `base` is excluded
InExcl(i, base) == \/ \E j \in (Len(base) + 1)..Len(U[i].dir) : U[i].dir[j] \in ExclDirs
                   \/ (st.extexcl = "path" /\ IsPrefix(<<"sub", "deep">>, SubSeq(U[i].dir, Len(base) + 1, Len(U[i].dir))))
\* the tool ignore file is looked up from the ROOT of the walk / glob upwards (first one found): below "other" that is other/.flowmarkignore
\* (rule "sub/"), elsewhere the tree's own (rule "ign.md")
ToolIgnAt(i, base) == st.toolign /\ (IF IsPrefix(<<"other">>, base) THEN \E j \in (Len(base) + 1)..Len(U[i].dir) : U[i].dir[j] = "sub"
                                      ELSE U[i].name = "ign.md")
ToolIgn(i) == ToolIgnAt(i, <<>>)
TooBig(i) == st.limit /\ U[i].size = "big"
Filters(i, base) == IncludeOK(i) /\ ~InExcl(i, base) /\ ~ToolIgnAt(i, base) /\ ~TooBig(i)

\* ---------------- what each argument denotes ----------------
DirOf(a) == CASE a = "." -> <<>> [] a = "sub" -> <<"sub">> [] a = "ln_dir" -> <<"sub">> [] a = "drafts" -> <<"drafts">> [] a = "other" -> <<"other">> [] a = "other/sub" -> <<"other", "sub">>   \* a walk root that is itself an excluded directory name
FileOf(a) == CASE a = "a.md" -> 1 [] a = "./a.md" -> 1 [] a = "ABS/sub/../a.md" -> 1 [] a = "node_modules/x.md" -> 6 [] a = "big.md" -> 3 [] a = "ln_big.md" -> 16    \* ABS/..: absolute, not canonical (<tree>/sub/../a.md)
               [] a = "ign.md" -> 5 [] a = "drafts/e.md" -> 9
IsDirArg(a) == a \in {".", "sub", "ln_dir", "drafts", "other", "other/sub"}
IsFileArg(a) == a \in {"a.md", "./a.md", "ABS/sub/../a.md", "node_modules/x.md", "big.md", "ln_big.md", "ign.md", "drafts/e.md"}
IsGlobArg(a) == a \in {"*.md", "**/*.md", "sub/*", "other/**/*.md"}
GlobRoot(a) == IF a = "other/**/*.md" THEN <<"other">> ELSE <<>>
GlobMatch(a) == CASE a = "*.md" -> {i \in Ids : U[i].dir = <<>> /\ U[i].ext = "md" /\ U[i].link # "dangling"}
                  [] a = "**/*.md" -> {i \in Ids : U[i].ext = "md" /\ U[i].link # "dangling"}
                  [] a = "sub/*" -> {i \in Ids : U[i].dir = <<"sub">>}
                  [] a = "other/**/*.md" -> {i \in Ids : IsPrefix(<<"other">>, U[i].dir) /\ U[i].ext = "md"}
Under(d) == {i \in Ids : IsPrefix(d, U[i].dir)}

\* ---------------- the declarative reading of the property ----------------
MustOf(a) == IF IsDirArg(a) THEN {i \in Under(DirOf(a)) : U[i].link = "none" /\ Filters(i, DirOf(a))}
             ELSE IF IsGlobArg(a) THEN {i \in GlobMatch(a) : U[i].link = "none" /\ Filters(i, GlobRoot(a))}
             ELSE LET i == FileOf(a) IN
                  IF ~TooBig(i) /\ (~st.force \/ (~InExcl(i, <<>>) /\ ~ToolIgn(i))) THEN {Target(i)} ELSE {}
\* free choices the property leaves open: symlinks matched by a glob (they are named by the pattern, not traversed)
MayOf(a) == IF IsGlobArg(a) THEN {Target(i) : i \in {j \in GlobMatch(a) : U[j].link = "file" /\ IncludeOK(j) /\ ~TooBig(j)}} ELSE {}
Must == UNION {MustOf(args[n]) : n \in 1..Len(args)}
May == UNION {MayOf(args[n]) : n \in 1..Len(args)}

\* ---------------- resolve() as implemented ----------------
WalkYield(d) == {i \in Under(d) : IncludeOK(i) /\ ~InExcl(i, d) /\ ~ToolIgnAt(i, d) /\ ~TooBig(i)
                                  /\ (WalkSkipsLinks => U[i].link = "none")}
GlobYield(a) == {i \in GlobMatch(a) : IncludeOK(i) /\ ~TooBig(i) /\ (GlobFilters => (~InExcl(i, GlobRoot(a)) /\ ~ToolIgnAt(i, GlobRoot(a))))}
FileYield(a) == LET i == FileOf(a) IN
                IF ~TooBig(i) /\ (~st.force \/ (~InExcl(i, <<>>) /\ (ForceAppliesIgnore => ~ToolIgn(i)))) THEN {i} ELSE {}
Init == /\ st \in Settings /\ args \in UNION {[1..n -> Args] : n \in 1..MaxArgs}
        /\ k = 1 /\ seen = {} /\ result = {} /\ pc = "args"
Take(found) == /\ seen' = seen \cup {Target(i) : i \in found} /\ result' = result \cup {Target(i) : i \in found}
               /\ k' = k + 1 /\ UNCHANGED <<st, args, pc>>
ArgFile == pc = "args" /\ k <= Len(args) /\ IsFileArg(args[k]) /\ Take(FileYield(args[k]))
ArgDir  == pc = "args" /\ k <= Len(args) /\ IsDirArg(args[k]) /\ Take(WalkYield(DirOf(args[k])))
ArgGlob == pc = "args" /\ k <= Len(args) /\ IsGlobArg(args[k]) /\ Take(GlobYield(args[k]))
Sort    == pc = "args" /\ k > Len(args) /\ pc' = "done" /\ UNCHANGED <<st, args, k, seen, result>>
Next == ArgFile \/ ArgDir \/ ArgGlob \/ Sort
Spec == Init /\ [][Next]_vars
Done == pc = "done"

\* ---------------- properties of the machine ----------------
\* known-finding sets, by trigger (empty when the corresponding constant is TRUE)
D18a == UNION {{Target(i) : i \in {j \in GlobMatch(args[n]) : IncludeOK(j) /\ ~TooBig(j) /\ (InExcl(j, <<>>) \/ ToolIgn(j))}} :
                 n \in {m \in 1..Len(args) : IsGlobArg(args[m])}}
D18b == UNION {{Target(i) : i \in {j \in Under(DirOf(args[n])) : U[j].link # "none" /\ IncludeOK(j) /\ ~InExcl(j, DirOf(args[n]))}} :
                 n \in {m \in 1..Len(args) : IsDirArg(args[m])}}
D18c == {FileOf(args[n]) : n \in {m \in 1..Len(args) : IsFileArg(args[m]) /\ st.force /\ ToolIgn(FileOf(args[m])) /\ ~TooBig(FileOf(args[m]))}}
Complete == Done => Must \subseteq result
SoundK == Done => result \subseteq (Must \cup May \cup (IF GlobFilters THEN {} ELSE D18a)
                                    \cup (IF WalkSkipsLinks THEN {} ELSE D18b) \cup (IF ForceAppliesIgnore THEN {} ELSE D18c))
\* the result does not depend on the order of the arguments
YieldOf(a) == IF IsDirArg(a) THEN WalkYield(DirOf(a)) ELSE IF IsGlobArg(a) THEN GlobYield(a) ELSE FileYield(a)
OrderFree == Done => result = {Target(i) : i \in UNION {YieldOf(args[n]) : n \in 1..Len(args)}}
Dump == (Done /\ DoDump) => PrintT(ToJson(<<"P", st, args, result, Must, May>>))
=============================================================================
