----------------------------- MODULE WrapTrace -----------------------------
(* Batch validation of observed wrapping results (leg C of C05).
   Each trace is one observation of a real wrapping function:
     [id, impl, words, width, ic, so, md, maximal, ok, out, linelen, ind]
   out     = observed lines, each a sequence of [w |-> word index, e |-> escaped];
   linelen = real length of each output line (indent included); ind[j] = line j carries its indent;
   ok      = the output parsed as the input's word sequence (harness-side tokenisation).
   Two things are decided per trace:
     (1) acceptance by the implementation-shaped machine of module Wrap (reused actions),
     (2) the property-level predicates of C05, evaluated on the observation only. *)
EXTENDS Wrap, IOUtils
Traces == JsonDeserialize(IOEnv.TRACE_FILE)
VARIABLE tid
tvars == <<vars, tid>>
T == Traces[tid]

TraceInit == /\ tid \in 1..Len(Traces)
             /\ words = Traces[tid].words /\ width = Traces[tid].width
             /\ ic = Traces[tid].ic /\ so = Traces[tid].so /\ md = Traces[tid].md
             /\ i = 1 /\ cur = <<>> /\ curw = Traces[tid].ic /\ first = TRUE /\ lines = <<>>
             /\ pc = IF Traces[tid].width <= 0 THEN "nowrap" ELSE "loop"
TraceNext == Next /\ UNCHANGED tid
TraceSpec == TraceInit /\ [][TraceNext]_tvars

\* ---- property-level predicates on the observation ----
N == Len(T.words)
ObsFlat == Flat(T.out)
PLossless == T.ok /\ ObsFlat = [j \in 1..N |-> j]
PIndent == \A j \in 1..Len(T.ind) : T.ind[j]
ObsLineLen(l) == SumLen(l) + Len(l) - 1
PSpacing == \A j \in 1..Len(T.out) : T.linelen[j] = Off(j) + ObsLineLen(T.out[j])
\* per line: TRUE = the line satisfies the clause
BoundedLines == [j \in 1..Len(T.out) |-> (T.linelen[j] <= width \/ Len(T.out[j]) = 1)]
MaximalLines == [j \in 1..(Len(T.out) - 1) |->
                   (~T.maximal \/ T.linelen[j] + 1 + W(T.out[j+1][1].w) > width)]
POneLine == width <= 0 => Len(T.out) <= 1
\* a backslash is only ever added to a line-leading marker word of a continuation line
PEscapeOnlyMarkers == \A j \in 1..Len(T.out) : \A t \in 1..Len(T.out[j]) :
                         T.out[j][t].e => (t = 1 /\ Escapable(words[T.out[j][t].w]))
\* (for C01) every marker word that starts a continuation line in markdown mode is escaped
NoHazardAtLineStart == \A j \in 2..Len(T.out) : (md /\ Escapable(words[T.out[j][1].w])) => T.out[j][1].e

Report == Done =>
   PrintT(ToJson(<<"R", T.id, lines = T.out, PLossless, PIndent, PSpacing,
                   IF T.ok /\ width > 0 THEN BoundedLines ELSE <<>>,
                   IF T.ok /\ width > 0 THEN MaximalLines ELSE <<>>,
                   POneLine, IF T.ok THEN PEscapeOnlyMarkers ELSE FALSE,
                   IF T.ok THEN NoHazardAtLineStart ELSE FALSE, Trig13>>))
=============================================================================
