----------------------------- MODULE Typography -----------------------------
(* Smart quotes (C08) and ellipses (C09) as machines over small symbol alphabets.

   Quotes:  symbols  "q2" straight double quote   "q1" straight single quote   "a" word character   "s" the letter s
                     "sp" space   "nl" newline   "pt" sentence punctuation . , ; : ? ! )   "em" em dash
                     "ot" any other character (=, (, [ ...)   "to" / "tc" template-tag opener / closer ({% / %})
            output adds "L2" "R2" "L1" "R1" (the four curly quotes).
   The machine transcribes typography.smartquotes: the text is cut at complete tags (leftmost "to" .. next "tc");
   each piece outside tags is rewritten by (1) leftmost, non-overlapping matches of QUOTE_PATTERN
   (prefix ^ | whitespace | em dash; "..." or '...' without an inner quote of the same kind; suffix whitespace | $ |
   punctuation | em dash; the suffix character is consumed, a match whose content holds a paragraph break is left
   unchanged) and (2) the per-word apostrophe rule (exactly one straight ' in the word, between word characters or
   after a final s).
   QuoteProp is the property of C08 on (input, output): same length, only quote characters change and only to a curly
   quote of their own family, nothing inside a complete tag changes, and a converted pair never spans a paragraph break.

   Ellipses: symbols "a" word character, "sp", "nl", "dot", "q" quote character (' or "), "pu" punctuation , : ; ? ! ) - em-dash,
                     "ot" other;   output adds "el" (the ellipsis character).
   The machine transcribes typography.ellipses (ELLIPSIS_PATTERN with the boundary test).  EllipsisProp: undoing the
   rewrite (el -> three dots, spaces touching a three-dot run erased) gives the same text for input and output; the
   rewrite is idempotent. *)
EXTENDS Naturals, Sequences, FiniteSets, TLC, Json
CONSTANTS Alphabet, MaxLen, Machine, DoDump
VARIABLES inp, out, pc
vars == <<inp, out, pc>>
Strings == UNION {[1..n -> Alphabet] : n \in 0..MaxLen}

\* =============================== smart quotes ===============================
WordCh(c) == c \in {"a", "s"}
WS(c) == c \in {"sp", "nl"}
Quote(c) == c \in {"q1", "q2"}
SufChar(c) == c \in {"sp", "nl", "pt", "em"}
OpenOf(c) == IF c = "q2" THEN "L2" ELSE "L1"
CloseOf(c) == IF c = "q2" THEN "R2" ELSE "R1"

\* paragraph break inside s[lo..hi]: two newlines with only whitespace between them
ParaBreak(s, lo, hi) == \E i, j \in lo..hi : i < j /\ s[i] = "nl" /\ s[j] = "nl" /\ \A m \in (i + 1)..(j - 1) : WS(s[m])
\* first index > q holding the same quote symbol, or 0
NextSame(s, q) == IF \E c \in (q + 1)..Len(s) : s[c] = s[q]
                  THEN CHOOSE c \in (q + 1)..Len(s) : s[c] = s[q] /\ \A m \in (q + 1)..(c - 1) : s[m] # s[q] ELSE 0
\* a match of QUOTE_PATTERN whose opening quote is at q: returns [ok, c (closing quote), e (last index consumed)]
MatchAtQuote(s, q) ==
  LET c == NextSame(s, q) IN
  IF c = 0 THEN [ok |-> FALSE, c |-> 0, e |-> 0]
  ELSE IF c < Len(s) /\ WS(s[c + 1]) THEN [ok |-> TRUE, c |-> c, e |-> c + 1]
  ELSE IF c = Len(s) THEN [ok |-> TRUE, c |-> c, e |-> c]
  ELSE IF s[c + 1] \in {"pt", "em"} THEN [ok |-> TRUE, c |-> c, e |-> c + 1]
  ELSE [ok |-> FALSE, c |-> 0, e |-> 0]
\* the regex tried at start position p: ^ alternative first (zero width), then a whitespace / em-dash prefix character
LineStart(s, p) == p = 1 \/ s[p - 1] = "nl"
TryAt(s, p) ==
  IF LineStart(s, p) /\ p <= Len(s) /\ Quote(s[p]) /\ MatchAtQuote(s, p).ok
    THEN [ok |-> TRUE, q |-> p] @@ MatchAtQuote(s, p)
  ELSE IF p < Len(s) /\ (WS(s[p]) \/ s[p] = "em") /\ Quote(s[p + 1]) /\ MatchAtQuote(s, p + 1).ok
    THEN [ok |-> TRUE, q |-> p + 1] @@ MatchAtQuote(s, p + 1)
  ELSE [ok |-> FALSE, q |-> 0, c |-> 0, e |-> 0]
RECURSIVE PairPass(_, _)
PairPass(s, p) ==       \* re.sub from position p on (the unconverted original decides matches; conversions do not create quotes)
  IF p > Len(s) THEN s
  ELSE LET m == TryAt(s, p) IN
       IF ~m.ok THEN PairPass(s, p + 1)
       ELSE LET s2 == IF ParaBreak(s, m.q + 1, m.c - 1) THEN s
                      ELSE [s EXCEPT ![m.q] = OpenOf(s[m.q]), ![m.c] = CloseOf(s[m.c])]
            IN PairPass(s2, m.e + 1)
\* apostrophes: per whitespace-delimited word
WordStart(s, i) == ~WS(s[i]) /\ (i = 1 \/ WS(s[i - 1]))
WordEnd(s, i) == IF \E j \in i..Len(s) : WS(s[j]) THEN (CHOOSE j \in i..Len(s) : WS(s[j]) /\ \A m \in i..(j - 1) : ~WS(s[m])) - 1 ELSE Len(s)
ApoWord(s, lo, hi) ==
  LET qs == {i \in lo..hi : s[i] = "q1"} IN
  IF Cardinality(qs) # 1 THEN s
  ELSE LET i == CHOOSE x \in qs : TRUE IN
       IF i > lo /\ i < hi /\ WordCh(s[i - 1]) /\ WordCh(s[i + 1]) THEN [s EXCEPT ![i] = "R1"]
       ELSE IF i = hi /\ i > lo /\ s[i - 1] = "s" /\ \A m \in lo..(i - 1) : WordCh(s[m]) THEN [s EXCEPT ![i] = "R1"]
       ELSE s
RECURSIVE ApoPass(_, _)
ApoPass(s, i) == IF i > Len(s) THEN s
                 ELSE IF WordStart(s, i) THEN LET h == WordEnd(s, i) IN ApoPass(ApoWord(s, i, h), h + 1)
                 ELSE ApoPass(s, i + 1)
QuotesText(s) == ApoPass(PairPass(s, 1), 1)
\* tag segmentation: leftmost "to" that has a later "tc"
RECURSIVE QuotesFrom(_, _)
QuotesFrom(s, p) ==      \* s[p..] processed; returns the converted suffix
  IF p > Len(s) THEN <<>>
  ELSE IF \E a \in p..Len(s) : s[a] = "to" /\ \E b \in (a + 1)..Len(s) : s[b] = "tc"
       THEN LET a == CHOOSE x \in p..Len(s) : s[x] = "to" /\ (\E b \in (x + 1)..Len(s) : s[b] = "tc")
                                              /\ \A y \in p..(x - 1) : ~(s[y] = "to" /\ \E b \in (y + 1)..Len(s) : s[b] = "tc")
                b == CHOOSE x \in (a + 1)..Len(s) : s[x] = "tc" /\ \A y \in (a + 1)..(x - 1) : s[y] # "tc"
            IN QuotesText(SubSeq(s, p, a - 1)) \o SubSeq(s, a, b) \o QuotesFrom(s, b + 1)
       ELSE QuotesText(SubSeq(s, p, Len(s)))
SmartQuotes(s) == QuotesFrom(s, 1)

\* ---- the property (C08) on a pair (s, t) ----
Family(c, d) == (c = "q2" /\ d \in {"L2", "R2"}) \/ (c = "q1" /\ d \in {"L1", "R1"})
QuoteProp(s, t) ==
  /\ Len(s) = Len(t)
  /\ \A i \in 1..Len(s) : t[i] # s[i] => Family(s[i], t[i])
  \* an opening curly quote and the next closing one of its family are never separated by a paragraph break
  /\ \A i \in 1..Len(t) : t[i] \in {"L2", "L1"} /\ t[i] # s[i] =>
        \A j \in (i + 1)..Len(t) : (t[j] = (IF t[i] = "L2" THEN "R2" ELSE "R1") /\ t[j] # s[j]
                                    /\ \A m \in (i + 1)..(j - 1) : ~(t[m] \in {"R2", "R1"} /\ t[m] # s[m])) => ~ParaBreak(s, i, j)
\* nothing strictly inside a complete tag changes (tags as found by the leftmost scan)
RECURSIVE TagPositions(_, _)
TagPositions(s, p) ==
  IF \E a \in p..Len(s) : s[a] = "to" /\ \E b \in (a + 1)..Len(s) : s[b] = "tc"
  THEN LET a == CHOOSE x \in p..Len(s) : s[x] = "to" /\ (\E b \in (x + 1)..Len(s) : s[b] = "tc")
                                         /\ \A y \in p..(x - 1) : ~(s[y] = "to" /\ \E b \in (y + 1)..Len(s) : s[b] = "tc")
           b == CHOOSE x \in (a + 1)..Len(s) : s[x] = "tc" /\ \A y \in (a + 1)..(x - 1) : s[y] # "tc"
       IN (a..b) \cup TagPositions(s, b + 1)
  ELSE {}
TagsUntouched(s, t) == Len(s) = Len(t) => \A i \in TagPositions(s, 1) : t[i] = s[i]

\* =============================== ellipses ===============================
EWord(c) == c = "a"
EPrefix(c) == c \in {"a", "q"}
EPunct(c) == c \in {"dot", "pu", "q"}
ThreeDots(s, i) == i + 2 <= Len(s) /\ s[i] = "dot" /\ s[i + 1] = "dot" /\ s[i + 2] = "dot"
\* skip whitespace from i: first index >= i that is not whitespace (Len+1 if none)
RECURSIVE SkipWS(_, _)
SkipWS(s, i) == IF i <= Len(s) /\ WS(s[i]) THEN SkipWS(s, i + 1) ELSE i
\* a match starting at p: prefix (^ zero-width or one prefix char), whitespace run, three dots, optional punct, whitespace run
EMatch(s, p) ==
  LET tryFrom(d0, hasPre) ==       \* d0 = index where the whitespace run before the dots starts
        LET d == SkipWS(s, d0) IN
        IF ~ThreeDots(s, d) THEN [ok |-> FALSE]
        ELSE LET pu == IF d + 3 <= Len(s) /\ EPunct(s[d + 3]) THEN 1 ELSE 0
                 w == d + 3 + pu
                 e == SkipWS(s, w)          \* first index after the match
             IN [ok |-> TRUE, pre |-> hasPre, d0 |-> d0, d |-> d, pu |-> pu, w |-> w, e |-> e]
  \* the zero-width prefix is the start of the TEXT only [fix D68; before it: of every line, which made the rewrite depend on where wrapping
  \* had put a line break and convert on a second pass what the first had moved to a line start]
  IN IF p = 1 /\ tryFrom(p, FALSE).ok THEN tryFrom(p, FALSE)
     ELSE IF p <= Len(s) /\ EPrefix(s[p]) /\ tryFrom(p + 1, TRUE).ok THEN tryFrom(p + 1, TRUE)
     ELSE [ok |-> FALSE]
RECURSIVE EllFrom(_, _, _)
EllFrom(s, p, acc) ==       \* acc = output so far for s[1..p-1]
  IF p > Len(s) THEN acc
  ELSE LET m == EMatch(s, p) IN
       IF ~m.ok THEN EllFrom(s, p + 1, Append(acc, s[p]))
       ELSE LET nextc == IF m.e <= Len(s) THEN s[m.e] ELSE "END"
                whole == SubSeq(s, p, m.e - 1)
                boundaryOK == nextc = "END" \/ EWord(nextc) \/ nextc = "nl"
                prefix == IF m.pre THEN <<s[p]>> ELSE <<>>
                before == IF m.pre /\ EWord(s[p]) /\ m.d = m.d0 THEN <<"sp">> ELSE SubSeq(s, m.d0, m.d - 1)
                punct == IF m.pu = 1 THEN <<s[m.d + 3]>> ELSE <<>>
                after == IF nextc # "END" /\ EWord(nextc) /\ m.e = m.w /\ m.pu = 0 THEN <<"sp">> ELSE SubSeq(s, m.w, m.e - 1)
            IN IF boundaryOK THEN EllFrom(s, m.e, acc \o prefix \o before \o <<"el">> \o punct \o after)
               ELSE EllFrom(s, m.e, acc \o whole)
Ellipses(s) == EllFrom(s, 1, <<>>)
\* ---- the property (C09) ----
RECURSIVE Expand(_)
Expand(s) == IF s = <<>> THEN <<>> ELSE (IF Head(s) = "el" THEN <<"dot", "dot", "dot">> ELSE <<Head(s)>>) \o Expand(Tail(s))
\* erase spaces (not newlines) that touch a run of >= 3 dots
DotRun(s, i) == s[i] = "dot" /\ \E a \in 1..i : \E b \in i..Len(s) : b - a >= 2 /\ \A m \in a..b : s[m] = "dot"
RECURSIVE SpaceRunTouches(_, _)
TouchesLeft(s, i) == \E j \in (i + 1)..Len(s) : DotRun(s, j) /\ \A m \in i..(j - 1) : s[m] = "sp"
TouchesRight(s, i) == \E j \in 1..(i - 1) : DotRun(s, j) /\ \A m \in (j + 1)..i : s[m] = "sp"
SpaceRunTouches(s, i) == s[i] = "sp" /\ (TouchesLeft(s, i) \/ TouchesRight(s, i))
Keep(s) == {i \in 1..Len(s) : ~SpaceRunTouches(s, i)}
RECURSIVE Filter(_, _)
Filter(s, i) == IF i > Len(s) THEN <<>> ELSE (IF i \in Keep(s) THEN <<s[i]>> ELSE <<>>) \o Filter(s, i + 1)
Inv(s) == LET x == Expand(s) IN Filter(x, 1)
EllipsisProp(s, t) == Inv(s) = Inv(t)
OnlyThreeDotRuns(s, t) == (\A i \in 1..Len(s) : ~ThreeDots(s, i)) => t = s

\* =============================== the enumeration machine ===============================
Init == inp \in Strings /\ out = <<>> /\ pc = "run"
Run == /\ pc = "run" /\ out' = IF Machine = "quotes" THEN SmartQuotes(inp) ELSE Ellipses(inp)
       /\ pc' = "done" /\ UNCHANGED inp
Next == Run
Spec == Init /\ [][Next]_vars
Done == pc = "done"
QuotesOK == (Done /\ Machine = "quotes") => QuoteProp(inp, out) /\ TagsUntouched(inp, out)
EllipsesOK == (Done /\ Machine = "ellipses") => EllipsisProp(inp, out) /\ OnlyThreeDotRuns(inp, out)
EllipsesIdem == (Done /\ Machine = "ellipses") => Ellipses(out) = out
Dump == (Done /\ DoDump) => PrintT(ToJson(<<"Y", inp, out>>))
=============================================================================
