------------------------------ MODULE LineEnds ------------------------------
(* Line ends of a paragraph on their way through reader, renderer and line wrapper: which become hard breaks, which dissolve, and which are
   content of a literal construct (C01: hard breaks kept, none invented; C04: literal constructs verbatim up to whitespace).

   A paragraph is   Lead <sep> item <sep> item ... end   with
     item = "w" (a word) or a construct [k, e] of kind k holding ONE inner line end of kind e
        k : "html" inline HTML tag (line end inside an attribute value)   "hcom" HTML comment     "title" link title    "ititle" image title
            "code" code span       "ltext" link text      "tag" {% %}      "jcom" {# #}      "var" {{ }}
        e : "sp1" one space + newline    "sp2" two spaces + newline    "bs" backslash + newline    "nl" bare newline
     sep : "s" a space   "nl" a newline   "sp2" two spaces + newline (hard break)   "bs" backslash + newline (hard break)

   One action per stage, as in the code:
     Parse  (marko)   a line end inside html / hcom / title / ititle / code is RAW content of one inline element; everywhere else it is a node:
                      sp2, bs -> hard break, sp1, nl -> soft break (template tags and link text are ordinary inline text for the reader).
     Render           hard node -> backslash newline; soft node -> newline; raw content of a code span -> one space (the backslash of "bs" stays
                      content); raw content of html / hcom / titles is emitted as written, except that spaces before the newline are dropped
                      [_without_trailing_spaces, fix D63; TrimRaw = FALSE is the tree before it]; a title's backslash is written doubled.
     Wrap             the wrapper splits the rendered TEXT at every "backslash newline" and "two spaces newline" -- it cannot tell a node from
                      raw content -- and joins the segments with backslash newline; every other newline dissolves into a space (or stays a newline).
   The result per line end is [hard |-> a backslash-newline stands there in the output, nbs |-> number of backslash characters written before it].

   Properties (on the machine, and on observed results in LineEndsTrace):
     BreaksKept   a separator / the inner end of a link text is a hard break in the output iff it was one in the source          (C01)
     Verbatim     a literal construct (every kind but ltext) keeps its content up to whitespace: no backslash invented (e # "bs" => nbs = 0),
                  none lost (e = "bs" => nbs >= 1)                                                                                (C04)
   Known finding D64: for tag / jcom / var with e = "sp2" the reader makes a hard break, so Verbatim fails (a backslash is invented) -- the two
   properties cannot both hold there unless the reader knows template tags (TagAware = TRUE: design of a repair, not the code).  *)
EXTENDS Naturals, Sequences, FiniteSets, TLC, Json
CONSTANTS MaxItems, Kinds, TrimRaw, TagAware, DoDump
VARIABLES para, stage, ends
vars == <<para, stage, ends>>

Ends == {"sp1", "sp2", "bs", "nl"}
Seps == {"s", "nl", "sp2", "bs"}
RawKinds == {"html", "hcom", "title", "ititle", "code"}
TagKinds == {"tag", "jcom", "var"}
Items == {[k |-> "w", e |-> "s"]} \cup [k : Kinds, e : Ends]
Paras == UNION {[items : [1..n -> Items], seps : [1..n -> Seps]] : n \in 1..MaxItems}

\* the line ends of a paragraph in reading order: for item j its separator, then (for a construct) its inner end
RECURSIVE EndsOf(_, _)
EndsOf(p, j) == IF j > Len(p.items) THEN <<>>
                ELSE <<[where |-> "sep", k |-> "sep", e |-> p.seps[j]]>>
                     \o (IF p.items[j].k = "w" THEN <<>> ELSE <<[where |-> "in", k |-> p.items[j].k, e |-> p.items[j].e]>>)
                     \o EndsOf(p, j + 1)
Source(p) == EndsOf(p, 1)

\* ---- stages, per line end ----
ParseOne(x) == IF x.where = "in" /\ x.k \in RawKinds THEN "raw"
               ELSE IF x.where = "in" /\ x.k \in TagKinds /\ TagAware THEN "raw"
               ELSE IF x.e \in {"sp2", "bs"} THEN "hard"
               ELSE IF x.e = "s" THEN "space" ELSE "soft"
\* rendered text form of a line end: [form, nbs]; form \in {"bsnl", "sp2nl", "sp1nl", "nl", "space"}
RenderOne(x, node) ==
  CASE node = "hard"  -> [form |-> "bsnl", nbs |-> 1]
    [] node = "soft"  -> [form |-> "nl", nbs |-> 0]
    [] node = "space" -> [form |-> "space", nbs |-> 0]
    [] OTHER -> \* raw
       IF x.k = "code" THEN [form |-> "space", nbs |-> IF x.e = "bs" THEN 1 ELSE 0]
       ELSE IF x.e = "bs" THEN [form |-> "bsnl", nbs |-> IF x.k \in {"title", "ititle"} THEN 2 ELSE 1]
       ELSE IF x.e = "sp2" THEN [form |-> IF TrimRaw THEN "nl" ELSE "sp2nl", nbs |-> 0]
       ELSE IF x.e = "sp1" THEN [form |-> IF TrimRaw THEN "nl" ELSE "sp1nl", nbs |-> 0]
       ELSE [form |-> "nl", nbs |-> 0]
WrapOne(r) == IF r.form = "bsnl" THEN [hard |-> TRUE, nbs |-> r.nbs]
              ELSE IF r.form = "sp2nl" THEN [hard |-> TRUE, nbs |-> r.nbs + 1]
              ELSE [hard |-> FALSE, nbs |-> r.nbs]

Init == para \in Paras /\ stage = "parse" /\ ends = <<>>
Parse == /\ stage = "parse" /\ ends' = [j \in 1..Len(Source(para)) |-> [node |-> ParseOne(Source(para)[j])]] /\ stage' = "render" /\ UNCHANGED para
Render == /\ stage = "render" /\ ends' = [j \in 1..Len(ends) |-> RenderOne(Source(para)[j], ends[j].node)] /\ stage' = "wrap" /\ UNCHANGED para
Wrap == /\ stage = "wrap" /\ ends' = [j \in 1..Len(ends) |-> WrapOne(ends[j])] /\ stage' = "done" /\ UNCHANGED para
Next == Parse \/ Render \/ Wrap
Spec == Init /\ [][Next]_vars
Done == stage = "done"

\* ---- the properties, on a result sequence o (the machine's `ends` or an observed one) for paragraph p ----
WasHard(x) == x.e \in {"sp2", "bs"}
BreaksKeptOn(p, o) == /\ Len(o) = Len(Source(p))
                      /\ \A j \in 1..Len(o) : (Source(p)[j].where = "sep" \/ Source(p)[j].k = "ltext") => (o[j].hard <=> WasHard(Source(p)[j]))
Literal(x) == x.where = "in" /\ x.k # "ltext"
VerbatimAt(x, r) == IF x.e = "bs" THEN r.nbs >= 1 ELSE r.nbs = 0
VerbatimOn(p, o) == Len(o) = Len(Source(p)) /\ \A j \in 1..Len(o) : Literal(Source(p)[j]) => VerbatimAt(Source(p)[j], o[j])
\* finding D64 by its trigger: the positions it explains
D64At(x) == x.where = "in" /\ x.k \in TagKinds /\ x.e = "sp2"
VerbatimKOn(p, o) == Len(o) = Len(Source(p)) /\ \A j \in 1..Len(o) : (Literal(Source(p)[j]) /\ ~D64At(Source(p)[j])) => VerbatimAt(Source(p)[j], o[j])
BreaksKept == Done => BreaksKeptOn(para, ends)
Verbatim == Done => VerbatimOn(para, ends)
VerbatimK == Done => VerbatimKOn(para, ends)
\* with a tag-aware reader both hold everywhere (the design of a repair of D64); with the reader as it is, Verbatim fails exactly at the D64 positions
RepairSound == (Done /\ TagAware /\ TrimRaw) => VerbatimOn(para, ends)
Dump == (Done /\ DoDump) => PrintT(ToJson(<<"E", para>>))
=============================================================================
