---------------------------- MODULE AtomicWrite ----------------------------
(* reformat_files / reformat_file / strif.atomic_output_file as a protocol over an abstract file system,
   with a fault on any file-system operation and a crash before any operation.
   Files 1..NFiles are processed in order.  Mode:
     "inplace"  write back through a temp file, optional .orig backup (Backup)
     "stdout"   format named files to stdout (inputs must never be touched)
     "outfile"  stdin -> -o FILE through a temp file (role "target" of file 1 is the -o path; it may be Absent before)
   Content classes per path role: Old New Partial Empty Absent.
   `hist` is a history variable (action names) used to export fault/crash scenarios for replay; it is hidden
   from the state graph by VIEW in the exhaustive configuration.  Direct = TRUE is the "write_text to the
   target" mutant used to show the invariants have teeth. *)
EXTENDS Naturals, Sequences, FiniteSets, TLC, Json
CONSTANTS NFiles, Backup, Mode, Direct, OutExists, DoDump
Files == 1..NFiles
VARIABLES fs, pc, cur, status, bad, hist
vars == <<fs, pc, cur, status, bad, hist>>
view == <<fs, pc, cur, status, bad>>
Roles == {"target", "tmp", "orig"}

InitTarget == IF Mode = "outfile" /\ ~OutExists THEN "Absent" ELSE "Old"
Init == /\ fs = [r \in Roles |-> [f \in Files |-> IF r = "target" THEN InitTarget ELSE "Absent"]]
        /\ pc = "read" /\ cur = 1 /\ status = "running" /\ hist = <<>>
        /\ bad \in (IF Mode = "outfile" THEN {{}} ELSE SUBSET Files)   \* undecodable / unformattable inputs

Set(r, f, c) == fs' = [fs EXCEPT ![r][f] = c]
Log(a) == hist' = Append(hist, <<a, cur>>)
Goto(l) == pc' = l /\ UNCHANGED <<cur, status, bad>>
FailRun == status' = "failed" /\ UNCHANGED <<fs, pc, cur, bad>>

\* ---- the steps of reformat_file ----
Read     == /\ pc = "read" /\ Log("read")
            /\ IF cur \in bad THEN FailRun                      \* read_text / decode / reformat_text raises
               ELSE /\ UNCHANGED fs
                    /\ Goto(IF Mode = "stdout" THEN "emit" ELSE IF Direct THEN "dopen" ELSE "open")
Emit     == pc = "emit" /\ Log("emit") /\ UNCHANGED fs /\ Goto("next")           \* sys.stdout.write
OpenTmp  == pc = "open"  /\ Log("open")  /\ Set("tmp", cur, "Empty") /\ Goto("write")
WriteTmp == pc = "write" /\ Log("write") /\ Set("tmp", cur, "New") /\ Goto("close")   \* all bytes written
CloseTmp == pc = "close" /\ Log("close") /\ UNCHANGED fs
            /\ Goto(IF Mode = "inplace" /\ Backup THEN "backup" ELSE "replace")
BackupMv == /\ pc = "backup" /\ Log("backup")
            /\ fs' = [fs EXCEPT !["orig"][cur] = fs["target"][cur], !["target"][cur] = "Absent"] /\ Goto("replace")
Replace  == /\ pc = "replace" /\ Log("replace")
            /\ fs' = [fs EXCEPT !["target"][cur] = fs["tmp"][cur], !["tmp"][cur] = "Absent"] /\ Goto("next")
\* mutant: direct write to the target
DOpen    == pc = "dopen"  /\ Log("dopen")  /\ Set("target", cur, "Empty") /\ Goto("dwrite")
DWrite   == pc = "dwrite" /\ Log("dwrite") /\ Set("target", cur, "New") /\ Goto("next")
NextFile == /\ pc = "next" /\ UNCHANGED <<fs, bad, hist>>
            /\ IF cur < NFiles THEN cur' = cur + 1 /\ pc' = "read" /\ UNCHANGED status
                               ELSE status' = "done" /\ UNCHANGED <<cur, pc>>
Step == Read \/ Emit \/ OpenTmp \/ WriteTmp \/ CloseTmp \/ BackupMv \/ Replace \/ DOpen \/ DWrite \/ NextFile

FsOps == {"read", "open", "write", "close", "backup", "replace", "dopen", "dwrite"}
\* a fault: the pending file-system operation returns an error without effect; the exception ends the run.
\* (a failing write may have written a prefix: tmp becomes Partial)
Fault == /\ pc \in FsOps /\ hist' = Append(hist, <<"FAULT:" \o pc, cur>>)
         /\ status' = "failed" /\ UNCHANGED <<pc, cur, bad>>
         /\ IF pc = "write" THEN \E c \in {"Empty", "Partial"} : Set("tmp", cur, c)
            ELSE IF pc = "dwrite" THEN \E c \in {"Empty", "Partial"} : Set("target", cur, c)
            ELSE UNCHANGED fs
\* a crash on entry of the pending operation (SIGKILL): nothing more happens
Crash == /\ pc \in FsOps /\ hist' = Append(hist, <<"CRASH:" \o pc, cur>>)
         /\ status' = "crashed" /\ UNCHANGED <<fs, pc, cur, bad>>
\* a crash in the middle of the write: a prefix is on disk
CrashMid == /\ pc \in {"write", "dwrite"} /\ hist' = Append(hist, <<"CRASHMID:" \o pc, cur>>)
            /\ status' = "crashed" /\ UNCHANGED <<pc, cur, bad>>
            /\ Set(IF pc = "write" THEN "tmp" ELSE "target", cur, "Partial")
Next == status = "running" /\ (Step \/ Fault \/ Crash \/ CrashMid)
Spec == Init /\ [][Next]_vars

\* ---- properties: evaluated in every reachable state, i.e. at every instant / crash point ----
Intact(f) == \/ fs["target"][f] \in {"Old", "New"}
             \/ (Mode = "inplace" /\ Backup /\ fs["target"][f] = "Absent" /\ fs["orig"][f] = "Old")
             \/ (Mode = "outfile" /\ ~OutExists /\ fs["target"][f] = "Absent")
TargetIntact == \A f \in Files : Intact(f)
NoTouchWithoutInplace == Mode = "stdout" => \A f \in Files : fs["target"][f] = "Old" /\ fs["tmp"][f] = "Absent" /\ fs["orig"][f] = "Absent"
FailureAtomic == \A f \in Files : (f \in bad) => (fs["target"][f] = "Old" /\ fs["tmp"][f] = "Absent" /\ fs["orig"][f] = "Absent")
PerFileAllOrNothing == status \in {"done", "failed"} =>
                          \A f \in Files : fs["target"][f] \in {"Old", "New", InitTarget} \/ (Backup /\ fs["orig"][f] = "Old")
Untouched == \A f \in Files : f > cur => (fs["target"][f] = InitTarget /\ fs["tmp"][f] = "Absent" /\ fs["orig"][f] = "Absent")
Completed == status = "done" => \A f \in Files : fs["target"][f] = (IF Mode = "stdout" THEN "Old" ELSE "New")

Dump == (status # "running" /\ DoDump) =>
          PrintT(ToJson(<<"S", Mode, Backup, NFiles, OutExists, [f \in Files |-> f \in bad], status, hist, fs>>))
=============================================================================
