--------------------------- MODULE LineEndsTrace ---------------------------
(* Validation of observed line ends (leg C of the line-end family of C01 / C04).
   Trace: [id, para, obs, same_m, lit_same, idem]   obs = per line end of the source (reading order) [hard, nbs] as found in the real output;
   same_m = the reader gets the same document from input and output; lit_same = same literal spans (up to whitespace); idem = second pass equal.
   Decided: the machine's result equals obs (drift otherwise); on obs alone: BreaksKept, Verbatim, and Verbatim with the D64 positions carved out. *)
EXTENDS LineEnds, IOUtils
Traces == JsonDeserialize(IOEnv.TRACE_FILE)
VARIABLE tid
TR == Traces[tid]
TraceInit == /\ tid \in 1..Len(Traces) /\ para = Traces[tid].para /\ stage = "parse" /\ ends = <<>>
TraceSpec == TraceInit /\ [][Next /\ UNCHANGED tid]_<<vars, tid>>
HasD64(p) == \E j \in 1..Len(Source(p)) : D64At(Source(p)[j])
TraceReport == Done => PrintT(ToJson(<<"R", TR.id, ends = TR.obs, BreaksKeptOn(TR.para, TR.obs), VerbatimOn(TR.para, TR.obs),
                                       VerbatimKOn(TR.para, TR.obs), HasD64(TR.para), TR.same_m, TR.lit_same, TR.idem>>))
=============================================================================
