----------------------------- MODULE TableTrace -----------------------------
(* Validation of observed table formatting (leg C of the table family of C01 / C02 / C04).
   Trace: [id, tbl, path, obs, same_m, same_i, idem]   obs = the output's table lines abstracted to the line records of TableRender.outl;
   same_m / same_i = marko / markdown-it read the same document from input and output; idem = a second pass changes nothing.
   Decided: the machine emits exactly obs (drift otherwise); on obs alone: AlignKept, CellsKept, Shape. *)
EXTENDS TableRender, IOUtils
Traces == JsonDeserialize(IOEnv.TRACE_FILE)
VARIABLE tid
TR == Traces[tid]
TraceInit == /\ tid \in 1..Len(Traces) /\ tbl = Traces[tid].tbl /\ path = Traces[tid].path /\ i = 0 /\ outl = <<>> /\ pc = "head"
TraceSpec == TraceInit /\ [][Next /\ UNCHANGED tid]_<<vars, tid>>
TraceReport == Done => PrintT(ToJson(<<"R", TR.id, outl = TR.obs, AlignKeptOn(TR.obs), CellsKeptOn(TR.obs), ShapeOn(TR.obs),
                                       TR.same_m, TR.same_i, TR.idem>>))
=============================================================================
