"""Projections of the marko AST (flowmark's own dialect) and of the markdown-it AST (independent CommonMark + GFM
tables / strikethrough parser, html_block disabled to mirror flowmark's deliberate dialect choice) to one normal form.

Normalisation N: adjacent text/escape nodes merged, soft break -> space, whitespace runs -> one space, text stripped at the
ends of an inline run; emphasis / bullet / fence / table-delimiter spelling dropped; kept: heading levels, list kind / start /
tightness, task state, alert type, code info + content, table alignments, link / image destination + title, definitions,
footnote labels, hard breaks, raw HTML, autolinks.

`flat(tree)` is the preorder sequence of node strings that the TLA+ trace specifications compare;
`literals(tree)` is the ordered sequence of non-prose spans (C04)."""
from __future__ import annotations

import re

WS = re.compile(r"\s+")


def norm_ws(s: str) -> str:
    return WS.sub(" ", s)


def code_canon(c: str) -> str:
    """content of a code span up to collapsing of whitespace runs in the raw span (allowed by C01 / C04): collapsing '`  a  `' to '` a `'
    lets CommonMark strip the remaining pair of edge spaces, so ' a ' and 'a' are the same span; a one-sided edge space is content"""
    c = norm_ws(c)
    if len(c) > 2 and c[0] == " " and c[-1] == " " and c.strip():
        c = c[1:-1]
    return c


def _raw(children) -> str:
    return children if isinstance(children, str) else "".join(_raw(getattr(k, "children", "")) for k in children)


def _title(t):
    """a title up to runs of whitespace: reflowing a paragraph may move a line break into or out of a multi-word title"""
    return norm_ws(t) if isinstance(t, str) else t


def _pangu(t: str) -> str:
    """the single space flowmark deliberately puts between adjacent CJK and Latin characters (allowed by C01): applied to both sides"""
    try:
        from marko.ext.pangu import PANGU_RE
        return re.sub(PANGU_RE, " ", t)
    except Exception:  # noqa: BLE001
        return t


def _finish_inline(out):
    res = [("t", norm_ws(_pangu(o[1]))) if o[0] == "t" else o for o in out]
    if res and res[0][0] == "t":
        res[0] = ("t", res[0][1].lstrip())
    if res and res[-1][0] == "t":
        res[-1] = ("t", res[-1][1].rstrip())
    return [r for r in res if r != ("t", "")]


# ------------------------------------------------------------------ marko
def inl_m(children):
    out = []

    def add_text(t):
        if out and out[-1][0] == "t":
            out[-1] = ("t", out[-1][1] + t)
        else:
            out.append(("t", t))
    if isinstance(children, str):
        add_text(children)
    else:
        for c in children:
            n = type(c).__name__
            if n in ("RawText", "Literal"):
                add_text(c.children)
            elif n == "LineBreak":
                if c.soft:
                    add_text(" ")
                else:
                    out.append(("br",))
            elif n == "CodeSpan":
                out.append(("code", code_canon(c.children)))
            elif n == "InlineHTML":
                out.append(("html", norm_ws(c.children)))
            elif n in ("Emphasis", "StrongEmphasis", "Strikethrough", "CustomStrikethrough"):
                out.append((n.replace("Custom", ""), inl_m(c.children)))
            elif n == "Link":
                out.append(("link", c.dest, _title(c.title), inl_m(c.children)))
            elif n == "Image":
                out.append(("img", c.dest, _title(c.title), inl_m(c.children)))
            elif n == "AutoLink":
                out.append(("auto", c.dest, _raw(c.children)))           # destination and the text as written (<joe@x.y> has dest mailto:joe@x.y)
            elif n == "Url":
                out.append(("url", c.dest, _raw(c.children)))
            elif n == "FootnoteRef":
                out.append(("fnref", c.label))
            else:
                out.append((n, repr(getattr(c, "children", None))))
    return _finish_inline(out)


def blk_m(e):
    n = type(e).__name__
    kids = lambda: [b for b in map(blk_m, e.children) if b]  # noqa: E731
    if n == "BlankLine":
        return None
    if n == "Document":
        return ("doc", kids(), sorted((k, v) for k, v in e.link_ref_defs.items()))
    if n == "Paragraph":
        if hasattr(e, "checked"):
            return ("task", bool(e.checked), inl_m(e.children))
        return ("p", inl_m(e.children))
    if n in ("Heading", "SetextHeading"):
        return ("h", e.level, inl_m(e.children))
    if n == "List":
        return ("list", bool(e.ordered), e.start if e.ordered else None, bool(e.tight), kids())
    if n == "ListItem":
        return ("li", kids())
    if n == "Quote":
        return ("quote", kids())
    if n in ("Alert", "CustomAlert") or hasattr(e, "alert_type"):
        return ("alert", e.alert_type, kids())
    if n in ("FencedCode", "CustomFencedCode"):
        return ("code", e.lang, e.extra, e.children[0].children.rstrip("\n"))
    if n == "CodeBlock":
        return ("code", "", "", e.children[0].children.rstrip("\n"))
    if n == "ThematicBreak":
        return ("hr",)
    if n == "LinkRefDef":
        return ("def", e.label, e.dest, e.title)
    if n == "HTMLBlock":
        return ("htmlblock", e.body)
    if n == "Table":
        return ("table", [blk_m(r) for r in e.children])
    if n == "TableRow":
        return ("tr", [blk_m(c) for c in e.children])
    if n == "TableCell":
        return ("td", getattr(e, "align", None), inl_m(e.children))
    if n == "FootnoteDef":
        return ("fndef", e.label, kids())
    return (n,)


def parse_marko(text: str):
    from flowmark.formats.flowmark_markdown import flowmark_markdown
    return blk_m(flowmark_markdown().parse(text))


# ------------------------------------------------------------------ markdown-it
_MD = None


def _mdit():
    global _MD
    if _MD is None:
        from markdown_it import MarkdownIt
        _MD = MarkdownIt("commonmark").enable("table").enable("strikethrough").disable("html_block")
    return _MD


def inl_i(nodes):
    out = []

    def add(t):
        if out and out[-1][0] == "t":
            out[-1] = ("t", out[-1][1] + t)
        else:
            out.append(("t", t))
    for n in nodes:
        t = n.type
        if t in ("text", "text_special"):
            add(n.content)
        elif t == "softbreak":
            add(" ")
        elif t == "hardbreak":
            out.append(("br",))
        elif t == "code_inline":
            out.append(("code", code_canon(n.content)))
        elif t == "html_inline":
            out.append(("html", norm_ws(n.content)))
        elif t == "em":
            out.append(("Emphasis", inl_i(n.children)))
        elif t == "strong":
            out.append(("StrongEmphasis", inl_i(n.children)))
        elif t == "s":
            out.append(("Strikethrough", inl_i(n.children)))
        elif t == "link":
            if n.markup == "autolink":
                out.append(("auto", n.attrs["href"], "".join(k.content for k in n.children)))
            else:
                out.append(("link", n.attrs["href"], _title(n.attrs.get("title")), inl_i(n.children)))
        elif t == "image":
            out.append(("img", n.attrs["src"], _title(n.attrs.get("title")), inl_i(n.children)))
        else:
            out.append((t,))
    return _finish_inline(out)


def blk_i(n):
    t = n.type
    kids = lambda: [b for b in map(blk_i, n.children) if b]  # noqa: E731
    inline_of = lambda node: inl_i(node.children[0].children) if node.children else []  # noqa: E731
    if t == "root":
        return ("doc", kids())
    if t == "paragraph":
        return ("p", inline_of(n))
    if t == "heading":
        return ("h", int(n.tag[1]), inline_of(n))
    if t in ("bullet_list", "ordered_list"):
        tight = True
        for li in n.children:
            for c in li.children:
                if c.type == "paragraph" and not c.nester_tokens.opening.hidden:
                    tight = False
        start = int(n.attrs.get("start", 1)) if t == "ordered_list" else None
        return ("list", t == "ordered_list", start, tight, kids())
    if t == "list_item":
        return ("li", kids())
    if t == "blockquote":
        return ("quote", kids())
    if t == "fence":
        info = n.info.strip().split(None, 1)
        return ("code", info[0] if info else "", info[1] if len(info) > 1 else "", n.content.rstrip("\n"))
    if t == "code_block":
        return ("code", "", "", n.content.rstrip("\n"))
    if t == "hr":
        return ("hr",)
    if t == "table":
        rows = []
        for sec in n.children:
            for tr in sec.children:
                rows.append(("tr", [("td", (c.attrs.get("style") or "").replace("text-align:", "") or None,
                                     inl_i(c.children[0].children) if c.children else []) for c in tr.children]))
        return ("table", rows)
    return (t,)


def parse_mdit(text: str):
    from markdown_it.tree import SyntaxTreeNode
    return blk_i(SyntaxTreeNode(_mdit().parse(text)))


# ------------------------------------------------------------------ flattening
def flat(tree) -> list[str]:
    """preorder node strings; containers are closed by ')' so that the nesting is unambiguous"""
    out: list[str] = []

    def inline(items):
        for it in items:
            k = it[0]
            if k == "t":
                out.append("t:" + it[1])
            elif k in ("Emphasis", "StrongEmphasis", "Strikethrough"):
                out.append(k + "(")
                inline(it[1])
                out.append(")")
            elif k in ("link", "img"):
                out.append(f"{k}({it[1]}|{it[2]}")
                inline(it[3])
                out.append(")")
            else:
                out.append(":".join(str(x) for x in it))

    def block(b):
        k = b[0]
        if k == "doc":
            for c in b[1]:
                block(c)
            if len(b) > 2:
                for d in b[2]:
                    out.append(f"refdef:{d[0]}|{d[1]}")
        elif k == "p":
            out.append("p(")
            inline(b[1])
            out.append(")")
        elif k == "task":
            out.append(f"task:{b[1]}(")
            inline(b[2])
            out.append(")")
        elif k == "h":
            out.append(f"h{b[1]}(")
            inline(b[2])
            out.append(")")
        elif k == "list":
            out.append(f"list:{'ol' if b[1] else 'ul'}:{b[2]}:{'tight' if b[3] else 'loose'}(")
            for c in b[4]:
                block(c)
            out.append(")")
        elif k in ("li", "quote"):
            out.append(k + "(")
            for c in b[1]:
                block(c)
            out.append(")")
        elif k in ("alert", "fndef"):
            out.append(f"{k}:{b[1]}(")
            for c in b[2]:
                block(c)
            out.append(")")
        elif k == "code":
            out.append(f"code:{b[1]}|{b[2]}|{b[3]}")
        elif k == "table":
            out.append("table(")
            for r in b[1]:
                out.append("tr(")
                for c in r[1]:
                    out.append(f"td:{c[1]}(")
                    inline(c[2])
                    out.append(")")
                out.append(")")
            out.append(")")
        else:
            out.append(":".join(str(x) for x in b))
    block(tree)
    return out


def literals(tree) -> list[str]:
    """ordered non-prose spans: code blocks (info + content), code spans, inline html, autolinks/urls, destinations, titles,
    footnote and definition labels"""
    out = []
    for s in flat(tree):
        head = s.split(":", 1)[0].split("(", 1)[0]
        if head in ("code", "html", "auto", "url", "fnref", "refdef", "def", "htmlblock") or s.startswith(("link(", "img(", "fndef:")):
            out.append(s.rstrip("("))
    return out
