"""Table family (spec/TableRender.tla, spec/TableTrace.tla): every table of the model, written in rotating source spellings
(outer pipes or not, delimiter-row spellings, cell padding), inside its container, formatted by flowmark and read back.

Used by C01 (same document for both parsers), C02 (second pass changes nothing) and C04 (alignments and cells verbatim)."""
from __future__ import annotations

import json
import re

from harness import project, tlc
from harness.par import pmap

PATHS = {"top": ("", ""), "quote": ("> ", "> "), "item": ("- lead\n\n  ", "  ")}
CELL = {"w": ["ab", "cd", "ef", "gh"], "e": [""], "p": ["x \\| y", "x\\\\\\|y"], "c": ["`c\\|d`", "`x\\\\|y`"], "m": ["*em*"]}      # second spellings: a literal backslash directly before the (escaped) pipe
DELIMS = {"n": ["---", "-", "-----"], "l": [":---", ":-", ":------"], "r": ["---:", "-:", "-----:"], "c": [":---:", ":-:", ":----:"]}


def cell_text(kind, k):
    opts = CELL[kind]
    return opts[k % len(opts)]


def source(tbl, path, variant):
    nc = len(tbl["al"])
    outer = variant % 3 != 1 or nc == 1          # a one-column table needs its outer pipes
    pad = " " if variant % 2 == 0 else ""
    rows = [[cell_text(kd, j + variant) for j, kd in enumerate(tbl["head"])],
            [DELIMS[a][(variant + j) % 3] for j, a in enumerate(tbl["al"])]]
    for r, row in enumerate(tbl["rows"]):
        rows.append([cell_text(kd, r + j + 1 + variant) for j, kd in enumerate(row)])
    lines = []
    for cells in rows:
        body = (pad + "|" + pad).join(cells)
        if outer or body.strip() == "" or body.strip().startswith("|") or len(cells) == 1:
            body = "|" + pad + body + pad + "|"
        lines.append(body)
    first, cont = PATHS[path]
    return first + ("\n" + cont).join(lines) + "\n\nafter\n"


SPLIT = re.compile(r"(?<!\\)\|")


def kind_of(cell: str):
    c = cell.strip()
    if c == "":
        return "e"
    if c in CELL["p"]:
        return "p"
    if c in CELL["c"]:
        return "c"
    if c == "*em*":
        return "m"
    if re.fullmatch(r"[a-z]{2}", c):
        return "w"
    return "?" + c


def observe_lines(out: str, path: str):
    """the table lines of the output as line records; None if the table cannot be located"""
    first, cont = PATHS[path]
    first_last = first.split("\n")[-1]
    lines = out.split("\n")
    recs = []
    started = False
    for l in lines:
        body = None
        if not started:
            if l.startswith(first_last) and l[len(first_last):].startswith("|"):
                body, p, started = l[len(first_last):], "first", True
            else:
                continue
        else:
            if l.startswith(cont) and l[len(cont):].startswith("|"):
                body, p = l[len(cont):], "cont"
            else:
                break
        b = body.strip()
        if not (b.startswith("|") and b.endswith("|")):
            return None
        cells = [c for c in SPLIT.split(b[1:-1])]
        if all(re.fullmatch(r"\s*:?-+:?\s*", c) for c in cells) and len(recs) == 1:
            recs.append(dict(p=p, k="delim", cells=[c.strip() for c in cells]))
        else:
            recs.append(dict(p=p, k="row", cells=[kind_of(c) for c in cells]))
    return recs or None


def _observe(job):
    from flowmark import reformat_text
    tid, tbl, path, variant, opts = job
    x = source(tbl, path, variant)
    try:
        o1 = reformat_text(x, **opts)
        o2 = reformat_text(o1, **opts)
    except BaseException as e:  # noqa: BLE001
        return dict(id=tid, src=x, exc=repr(e))
    fm = project.flat(project.parse_marko(x)), project.flat(project.parse_marko(o1))
    fi = project.flat(project.parse_mdit(x)), project.flat(project.parse_mdit(o1))
    return dict(id=tid, src=x, out=o1, obs=observe_lines(o1, path), same_m=fm[0] == fm[1], same_i=fi[0] == fi[1], idem=o1 == o2,
                marko_table="table(" in fm[0], mdit_table="table(" in fi[0], lit_same=project.literals(project.parse_marko(x)) == project.literals(project.parse_marko(o1)))


OPTS = [dict(width=88, semantic=False, cleanups=False), dict(width=10, semantic=True, cleanups=True, smartquotes=True, ellipses=True)]


def collect(tier: str, shard: int = 0):
    consts = dict(MaxCols=2, MaxRows=1 if tier == "quick" else 2, HeadKinds={"w", "p", "c"}, CellKinds={"w", "e", "p", "c"} if tier == "quick" else {"w", "e", "p", "c", "m"},
                  Paths=set(PATHS), DoDump=True)
    if tier == "thorough":
        consts["CellKinds"] = {"w", "e", "c"}          # two rows: 3 kinds keep the space near 10^5
    res = tlc.run_tlc("TableRender", tlc.cfg_text(constants=consts, invariants=["AlignKept", "CellsKept", "Shape", "Dump"]), coverage=True, timeout=3000)
    for act in ("EmitHead", "EmitDelim", "EmitRow", "Finish"):
        if res.coverage.get(act, (0, 0))[0] == 0:
            raise tlc.TlcError(f"vacuous model: action {act} never taken")
    beh = sorted(((r[1], r[2]) for r in res.reports if r and r[0] == "T"), key=json.dumps)
    # variant (source spelling) and option set must not be tied to the shard: k // 3 runs through all residues inside every shard
    jobs = [(k + 1, t, p, k // 3, OPTS[(k // 3) % 2]) for k, (t, p) in enumerate(beh)]
    if tier == "quick":      # the three properties that use the family each replay another third of the model's tables
        jobs = [j for j in jobs if j[0] % 3 == shard]
    obs = pmap(_observe, jobs, chunksize=200)
    traces, keep, errors, disc = [], {}, [], dict(not_a_table_for_both_parsers=0, unlocated=0)
    for job, o in zip(jobs, obs):
        if "exc" in o:
            errors.append(dict(o, opts=job[4]))
            continue
        if not (o["marko_table"] and o["mdit_table"]):
            disc["not_a_table_for_both_parsers"] += 1          # e.g. a header that reads as something else: no reference reading
            continue
        if o["obs"] is None:
            o["obs"] = []
        traces.append(dict(id=o["id"], tbl=job[1], path=job[2], obs=o["obs"], same_m=o["same_m"], same_i=o["same_i"], idem=o["idem"]))
        keep[o["id"]] = dict(o, tbl=job[1], path=job[2], opts=job[4])
    reports, gen, dist = tlc.validate_traces("TableTrace", traces, cfg=tlc.cfg_text(spec="TraceSpec", constants=dict(consts, DoDump=False),
                                                                                  invariants=["TraceReport"]), timeout=3000)
    return dict(model=res, tables=len(beh), items=[(keep[t["id"]], reports[t["id"]]) for t in traces], errors=errors, discarded=disc,
                generated=gen, distinct=dist, ntraces=len(traces))


def judge(chk, tier: str, prop: str) -> None:
    d = collect(tier, {"C01": 0, "C02": 1, "C04": 2}[prop])
    chk.add_tlc(d["model"])
    chk.states += d["distinct"]
    chk.transitions += d["generated"]
    chk.traces += d["ntraces"]
    chk.discarded += sum(d["discarded"].values())
    stats = dict(tables=d["tables"], judged=d["ntraces"], failing=0, discarded=d["discarded"])
    for e in d["errors"]:
        chk.evaluations += 1
        chk.violation("NoException", dict(fam="table", src=e["src"], opts=e["opts"], exc=e["exc"]))
    for o, r in d["items"]:
        _, id_, acc, align, cells, shape, same_m, same_i, idem = r
        chk.evaluations += 1
        chk.nontriv(("table", json.dumps(o["tbl"], sort_keys=True), o["path"]))
        m = dict(fam="table", table=o["tbl"], path=o["path"], src=o["src"], opts=o["opts"], out=o["out"], observed_lines=o["obs"])
        if prop == "C01":
            fails = [n for n, v in (("SameDocument(marko)", same_m), ("SameDocument(markdown-it)", same_i)) if not v]
        elif prop == "C02":
            fails = [] if idem else ["Idempotent"]
        else:
            fails = [n for n, v in (("AlignKept", align), ("CellsKept", cells), ("Shape", shape), ("SameLiterals", o["lit_same"])) if not v]
        if fails:
            stats["failing"] += 1
            chk.violation("+".join(fails) + "(table)", m)
        elif not acc:
            chk.drift_note(dict(m, why="table lines differ from TableRender.tla"))
    chk.notes["family_table"] = stats
