"""Cooperative deterministic thread scheduler (C13): exactly one thread runs at a time; a thread yields to the
scheduler at 'call' events of code under flowmark/ or marko/ (filtered by file path, not by function name).
A schedule is a sequence of thread indices, one per *segment*; thread t's call is cut into `nsteps` segments of
(almost) equal numbers of call events (counted by a solo run)."""
from __future__ import annotations

import sys
import threading


def _interesting(filename: str) -> bool:
    return "/flowmark/" in filename or "/marko/" in filename


def count_events(job) -> int:
    n = 0

    def tracer(frame, event, arg):
        nonlocal n
        if event == "call" and _interesting(frame.f_code.co_filename):
            n += 1
        return None
    sys.settrace(tracer)
    try:
        job()
    finally:
        sys.settrace(None)
    return n


class Sched:
    def __init__(self, jobs, counts, nsteps, schedule, record_touches=False):
        self.jobs, self.n = jobs, len(jobs)
        self.nsteps = nsteps
        self.schedule = list(schedule)
        # segment boundaries in numbers of events
        self.bounds = [[(c * (s + 1)) // nsteps for s in range(nsteps)] for c in counts]
        self.sems = [threading.Semaphore(0) for _ in jobs]
        self.main = threading.Semaphore(0)
        self.done = [False] * self.n
        self.res = [None] * self.n
        self.events = [0] * self.n
        self.seg = [0] * self.n
        self.tl = threading.local()
        self.executed = []
        self.touches = []
        self.keep = []
        self.record = record_touches

    def tracer(self, frame, event, arg):
        if event != "call" or not _interesting(frame.f_code.co_filename):
            return None
        i = self.tl.i
        if self.record:
            co = frame.f_code
            if co.co_argcount and co.co_varnames[0] == "self":
                obj = frame.f_locals.get("self")
                if obj is not None and not isinstance(obj, type):
                    self.keep.append(obj)
                    self.touches.append((i, id(obj), type(obj).__name__))
        self.events[i] += 1
        s = self.seg[i]
        # yield at the end of every segment but the last (the last one ends when the job returns)
        if s < self.nsteps - 1 and self.events[i] >= self.bounds[i][s]:
            self.seg[i] += 1
            self.main.release()
            self.sems[i].acquire()
        return None

    def run_job(self, i):
        self.tl.i = i
        self.sems[i].acquire()
        sys.settrace(self.tracer)
        try:
            self.res[i] = self.jobs[i]()
        except BaseException as e:  # noqa: BLE001 - an exception is a result
            self.res[i] = ("EXC", repr(e))
        finally:
            sys.settrace(None)
            self.done[i] = True
            self.seg[i] = self.nsteps
            self.main.release()

    def run(self):
        ths = [threading.Thread(target=self.run_job, args=(i,), daemon=True) for i in range(self.n)]
        for t in ths:
            t.start()
        segs_left = [self.nsteps] * self.n
        for t in self.schedule:
            if self.done[t]:
                continue        # fewer events than expected (code changed): remaining segments are empty
            before = self.seg[t]
            self.executed.append(t)
            self.sems[t].release()
            if not self.main.acquire(timeout=60):
                raise RuntimeError("scheduler: thread did not yield within 60 s")
            segs_left[t] -= max(1, self.seg[t] - before)
        # drain: run whatever is left to completion in index order
        for t in range(self.n):
            while not self.done[t]:
                self.executed.append(t)
                self.sems[t].release()
                if not self.main.acquire(timeout=60):
                    raise RuntimeError("scheduler: drain timeout")
        for t in ths:
            t.join(timeout=10)
        return self.res
