"""Soundness exercise: a behaviour change that keeps every property true must not make any check alarm.

usage: python -m harness.benigncheck <id> <dir-with-patch/demo/meta> <k> [checks ...]

1. patch<k>.diff applies to a clean copy of /repo's HEAD, the package imports, the unedited test suite passes;
2. demo<k>.py exits 0 with the change (changed behaviour observed) and 1 on the unchanged tree;
3. every quick check (or the ones named) is run with VERIF_REPO pointing at the changed copy; exit status and the first
   VIOLATION clause are recorded.  An exit 1 here is either a false alarm of the framework or a change that does break a
   property after all: triaged by hand and recorded in DESIGN.md 12.6;
4. everything is written to /verif/seeded/<id>/ (patch.diff, demo.py, meta.json)."""
from __future__ import annotations

import json
import os
import shutil
import subprocess
import sys
import tempfile
import time

VERIF = os.path.dirname(os.path.dirname(os.path.abspath(__file__)))
PY = "/venv/bin/python"
ALL = [f"C{i:02d}" for i in range(1, 19)]


def sh(cmd, **kw):
    return subprocess.run(cmd, capture_output=True, text=True, **kw)


def main():
    bid, src, k = sys.argv[1:4]
    checks = sys.argv[4:] or ALL
    dest = os.path.join(VERIF, "seeded", bid)
    same = os.path.abspath(src) == os.path.abspath(dest)
    patch = os.path.join(src, "patch.diff" if same else f"patch{k}.diff")
    demo = os.path.join(src, "demo.py" if same else f"demo{k}.py")
    meta = json.load(open(os.path.join(src, "meta.json" if same else f"meta{k}.json")))
    meta = meta.get("agent_meta", meta)
    scratch = tempfile.mkdtemp(prefix="benign-")
    rec = dict(seed=bid, kind="benign", agent_meta=meta, confirmed={}, checks={})
    try:
        copy = os.path.join(scratch, "repo")
        sh(["git", "-C", "/repo", "worktree", "add", "-q", copy, "HEAD"])
        ap = sh(["git", "-C", copy, "apply", patch])
        rec["confirmed"]["patch_applies"] = ap.returncode == 0
        t = sh([PY, "-m", "pytest", "-q", "-p", "no:cacheprovider", "-x"], cwd=copy, env=dict(os.environ, PYTHONPATH=f"{copy}/src"))
        rec["confirmed"]["tests_pass"] = t.returncode == 0 and "302 passed" in t.stdout
        d1 = sh([PY, demo], cwd=scratch, env=dict(os.environ, PYTHONPATH=f"{copy}/src"), timeout=600)
        d0 = sh([PY, demo], cwd=scratch, env=dict(os.environ, PYTHONPATH="/repo/src"), timeout=600)
        rec["confirmed"]["demo_with_change_exit"] = d1.returncode
        rec["confirmed"]["demo_without_change_exit"] = d0.returncode
        rec["confirmed"]["behaviour_changes"] = d1.returncode == 0 and d0.returncode == 1
        for chk in checks:
            t0 = time.time()
            r = sh([os.path.join(VERIF, "check"), chk, "--tier", "quick"], cwd=VERIF, env=dict(os.environ, VERIF_REPO=copy), timeout=3600)
            viol = [l for l in r.stdout.splitlines() if l.startswith("VIOLATION") or l.strip().startswith("clause=")]
            last = r.stdout.strip().splitlines()[-1][:300] if r.stdout.strip() else r.stderr[-300:]
            rec["checks"][chk] = dict(exit=r.returncode, wall_s=round(time.time() - t0, 1),
                                      first=(viol[1][:700] if len(viol) > 1 else viol[0][:300] if viol else last))
        rec["alarms"] = sorted(k_ for k_, v in rec["checks"].items() if v["exit"] != 0)
        os.makedirs(dest, exist_ok=True)
        prev = os.path.join(dest, "meta.json")
        if os.path.exists(prev):
            old = json.load(open(prev))
            rec["history"] = old.get("history", []) + [dict(alarms=old.get("alarms"), verif_commit=old.get("verif_commit"))]
        if not same:
            shutil.copy(patch, os.path.join(dest, "patch.diff"))
            shutil.copy(demo, os.path.join(dest, "demo.py"))
        rec["verif_commit"] = sh(["git", "-C", VERIF, "log", "--format=%h", "-1"]).stdout.strip()
        json.dump(rec, open(os.path.join(dest, "meta.json"), "w"), indent=1)
        print(json.dumps({k_: rec[k_] for k_ in ("seed", "alarms")}), json.dumps(rec["confirmed"]))
        for k_, v in rec["checks"].items():
            if v["exit"] != 0:
                print("  ", k_, v["exit"], v["wall_s"], v["first"][:600])
    finally:
        sh(["git", "-C", "/repo", "worktree", "remove", "--force", os.path.join(scratch, "repo")])
        shutil.rmtree(scratch, ignore_errors=True)


if __name__ == "__main__":
    main()
