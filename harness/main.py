"""./check dispatcher."""
from __future__ import annotations

import argparse
import importlib
import os
import sys
import traceback

from harness.core import machinery_failure
from harness.tlc import TlcError


def main(argv=None) -> int:
    ap = argparse.ArgumentParser(prog="check")
    ap.add_argument("what", help="property id (C01..C18), 'setup' or 'selftest'")
    ap.add_argument("--tier", default=os.environ.get("VERIF_TIER", "quick"), choices=["quick", "thorough"])
    ap.add_argument("--replay", default=None)
    ap.add_argument("rest", nargs="*")
    a = ap.parse_args(argv)
    if a.what == "setup":
        from harness import setup
        return setup.run()
    if a.what == "selftest":
        from harness import selftest
        return selftest.run(a.rest)
    pid = a.what.upper()
    try:
        mod = importlib.import_module(f"harness.props.{pid.lower()}")
    except ModuleNotFoundError:
        return machinery_failure(pid, "no such check")
    try:
        if a.replay:
            return mod.replay(a.replay)
        return mod.run(a.tier)
    except TlcError as e:
        return machinery_failure(pid, str(e)[:4000])
    except Exception:
        return machinery_failure(pid, traceback.format_exc())


if __name__ == "__main__":
    sys.exit(main())
