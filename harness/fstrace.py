"""Run the flowmark CLI under strace (optionally with syscall-level fault / kill injection) inside a scratch
directory and turn the system-call log into file-system events for spec/FsTrace.tla."""
from __future__ import annotations

import os
import re
import shutil
import subprocess
import tempfile

from harness.core import PY, REPO

SYSCALLS = ("openat,open,creat,write,pwrite64,writev,close,rename,renameat,renameat2,unlink,unlinkat,mkdir,mkdirat,"
            "truncate,ftruncate,link,linkat,symlink,symlinkat,copy_file_range,sendfile,exit_group")
LINE = re.compile(r"^(\d+)\s+(\w+)\((.*)\)\s+=\s+(-?\d+|\?)(.*)$")
FDPATH = re.compile(r"^(\d+)<([^>]*)>")
QUOTED = re.compile(r'"((?:[^"\\]|\\.)*)"')


def strace_available() -> bool:
    if not shutil.which("strace"):
        return False
    p = subprocess.run(["strace", "-o", "/dev/null", "true"], capture_output=True)
    return p.returncode == 0


class Run:
    def __init__(self, rc, stdout, stderr, log_lines, killed):
        self.rc, self.stdout, self.stderr, self.log_lines, self.killed = rc, stdout, stderr, log_lines, killed


def run_cli(cwd: str, argv: list[str], *, stdin: bytes | None = None, inject: str | None = None,
            driver: str | None = None, env_extra: dict | None = None, timeout: int = 120) -> Run:
    log = os.path.join(tempfile.mkdtemp(prefix="strace-"), "log.txt")
    cmd = ["strace", "-f", "-y", "-o", log, "-e", f"trace={SYSCALLS}"]
    if inject:
        cmd += ["-e", f"inject={inject}"]
    cmd += [PY] + (([driver]) if driver else ["-m", "flowmark.cli"]) + argv
    env = dict(os.environ, PYTHONPATH=f"{REPO}/src", PYTHONDONTWRITEBYTECODE="1", PYTHONHASHSEED="0")
    if env_extra:
        env.update(env_extra)
    try:
        p = subprocess.run(cmd, cwd=cwd, input=stdin if stdin is not None else b"", capture_output=True,
                           env=env, timeout=timeout)
        lines = open(log, errors="replace").read().splitlines()
    finally:
        shutil.rmtree(os.path.dirname(log), ignore_errors=True)
    killed = any("killed by SIGKILL" in ln for ln in lines[-3:])
    return Run(p.returncode, p.stdout, p.stderr, lines, killed)


def parse(lines: list[str], root: str, classify, newlen: dict) -> list[dict]:
    """strace lines -> events on paths under `root`. classify(abs_path) -> (role, file_index).
    Each event also carries `sc` (syscall name) and `k` (1-based ordinal of that syscall in the process) so that a
    later run can inject a fault at exactly this invocation."""
    ev = []
    counts: dict[str, int] = {}
    cum: dict[str, int] = {}
    root = os.path.realpath(root)

    def ab(p):
        return os.path.normpath(p if os.path.isabs(p) else os.path.join(root, p))

    def inside(p):
        return ab(p).startswith(root + os.sep)

    for ln in lines:
        if "+++ killed by" in ln:
            ev.append(dict(op="killed", r="other", f=0, r2="other", f2=0, w=False, trunc=False, full=False, ok=True, code=137))
            continue
        m = re.search(r"\+\+\+ exited with (\d+) \+\+\+", ln)
        if m:
            ev.append(dict(op="exit", r="other", f=0, r2="other", f2=0, w=False, trunc=False, full=False, ok=True, code=int(m.group(1))))
            continue
        m = LINE.match(ln)
        if not m:
            continue
        _pid, sc, args, ret, _rest = m.groups()
        counts[sc] = counts.get(sc, 0) + 1
        k = counts[sc]
        ok = ret != "?" and int(ret) >= 0
        base = dict(r="other", f=0, r2="other", f2=0, w=False, trunc=False, full=False, ok=ok, code=0, sc=sc, k=k)

        def role(p):
            return classify(ab(p))
        if sc in ("openat", "open", "creat"):
            q = QUOTED.search(args)
            if not q or not inside(q.group(1)):
                continue
            path = ab(q.group(1))
            flags = args[q.end():]
            w = "O_WRONLY" in flags or "O_RDWR" in flags or sc == "creat"
            trunc = "O_TRUNC" in flags or sc == "creat"
            r, f = role(path)
            if ok and w and (trunc or not os.path.exists(path) or "O_CREAT" in flags and cum.get(path) is None):
                if trunc:
                    cum[path] = 0
                cum.setdefault(path, 0)
            ev.append(dict(base, op="open", r=r, f=f, w=w, trunc=trunc, path=path, rd=not w))
        elif sc in ("write", "pwrite64", "writev", "sendfile", "copy_file_range"):
            fm = FDPATH.match(args)
            if not fm or not fm.group(2).startswith("/") or not inside(fm.group(2)):
                continue
            path = ab(fm.group(2))
            r, f = role(path)
            n = int(ret) if ok else 0
            cum[path] = cum.get(path, 0) + n
            ev.append(dict(base, op="write", r=r, f=f, w=True, full=(cum[path] == newlen.get(f, -1)), path=path, n=n))
        elif sc == "close":
            fm = FDPATH.match(args)
            if not fm or not fm.group(2).startswith("/") or not inside(fm.group(2)):
                continue
            path = ab(fm.group(2))
            r, f = role(path)
            ev.append(dict(base, op="close", r=r, f=f, path=path))
        elif sc in ("rename", "renameat", "renameat2", "link", "linkat", "symlink", "symlinkat"):
            ps = [x for x in QUOTED.findall(args)]
            if len(ps) < 2 or not (inside(ps[0]) or inside(ps[1])):
                continue
            r, f = role(ps[0]) if inside(ps[0]) else ("other", 0)
            r2, f2 = role(ps[1]) if inside(ps[1]) else ("other", 0)
            if ok and sc.startswith("rename"):
                cum[ab(ps[1])] = cum.pop(ab(ps[0]), 0)
            op = "rename" if sc.startswith("rename") else "link"
            ev.append(dict(base, op=op, r=r, f=f, r2=r2, f2=f2, path=ab(ps[0]), dst=ab(ps[1])))
        elif sc in ("unlink", "unlinkat"):
            q = QUOTED.search(args)
            if not q or not inside(q.group(1)):
                continue
            r, f = role(q.group(1))
            cum.pop(ab(q.group(1)), None)
            ev.append(dict(base, op="unlink", r=r, f=f, path=ab(q.group(1))))
        elif sc in ("truncate", "ftruncate"):
            q = QUOTED.search(args)
            fm = FDPATH.match(args)
            p = q.group(1) if q else (fm.group(2) if fm else None)
            if not p or not inside(p):
                continue
            r, f = role(p)
            length = int(args.rsplit(",", 1)[1].strip() or 0) if "," in args else 0
            cum[ab(p)] = length
            ev.append(dict(base, op="trunc", r=r, f=f, trunc=(length == 0), path=ab(p)))
        elif sc in ("mkdir", "mkdirat"):
            q = QUOTED.search(args)
            if q and inside(q.group(1)):
                ev.append(dict(base, op="mkdir", path=ab(q.group(1))))
    return ev


def tla_events(ev: list[dict]) -> list[dict]:
    keys = ("op", "r", "f", "r2", "f2", "w", "trunc", "full", "ok", "code")
    return [{k: e[k] for k in keys} for e in ev]
