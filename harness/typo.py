"""Shared helpers for C08/C09: symbol alphabets <-> concrete strings, protected-span scanner, quote-bearing documents."""
from __future__ import annotations

import re

# ---------------- smart quotes alphabet ----------------
Q_CONC = {"q2": ['"'], "q1": ["'"], "a": ["a", "b", "7"], "s": ["s", "S"], "sp": [" "], "nl": ["\n"],
          "pt": [".", ",", "!", ")", "?", ";", ":"], "em": ["—"], "ot": ["=", "(", "[", "/"], "to": ["{%"], "tc": ["%}"]}
Q_BACK = {'"': "q2", "'": "q1", "“": "L2", "”": "R2", "‘": "L1", "’": "R1", " ": "sp", "\n": "nl", "—": "em"}


def q_conc(syms: list[str], variant: int = 0) -> tuple[str, list[int]]:
    """symbols -> (text, start offset of each symbol)"""
    out, offs = [], []
    pos = 0
    for i, s in enumerate(syms):
        opts = Q_CONC[s]
        t = opts[(i + variant) % len(opts)]
        offs.append(pos)
        out.append(t)
        pos += len(t)
    return "".join(out), offs


def q_back(text: str, syms: list[str], variant: int = 0):
    """real output text -> symbols aligned with the input symbols (None if the shape changed)"""
    out = []
    pos = 0
    for i, s in enumerate(syms):
        opts = Q_CONC[s]
        t = opts[(i + variant) % len(opts)]
        chunk = text[pos: pos + len(t)]
        if len(chunk) != len(t):
            return None
        if chunk == t:
            out.append(s)
        elif len(t) == 1 and chunk in Q_BACK:
            out.append(Q_BACK[chunk])
        else:
            out.append("??")
        pos += len(t)
    if pos != len(text):
        return None
    return out


# ---------------- ellipsis alphabet ----------------
E_CONC = {"a": ["a", "b", "7"], "sp": [" "], "nl": ["\n"], "dot": ["."], "q": ['"', "'"], "pu": [",", "!", ")", "-", ":", "—", "?", ";"],
          "ot": ["(", "=", "["]}


def e_conc(syms, variant=0) -> str:
    return "".join(E_CONC[s][(i + variant) % len(E_CONC[s])] for i, s in enumerate(syms))


def e_back(text: str) -> list[str]:
    out = []
    for ch in text:
        if ch == "…":
            out.append("el")
        elif ch == ".":
            out.append("dot")
        elif ch == " ":
            out.append("sp")
        elif ch == "\n":
            out.append("nl")
        elif ch in "\"'":
            out.append("q")
        elif ch in ",!)-:—?;":
            out.append("pu")
        elif ch.isalnum() or ch == "_":
            out.append("a")
        else:
            out.append("ot")
    return out


# ---------------- protected spans of a formatted Markdown text ----------------
_FENCE = re.compile(r"^([ >]*)(`{3,}|~{3,})")
PROT_PATTERNS = [
    re.compile(r"(`+)(?:(?!\1).)+\1", re.S),                 # code spans
    re.compile(r"\{%.*?%\}|\{#.*?#\}|\{\{.*?\}\}|<!--.*?-->", re.S),   # template tags, comments
    re.compile(r"</?[a-zA-Z][^>\n]*>"),                      # inline HTML tags
    re.compile(r"<[a-zA-Z][a-zA-Z0-9+.-]*:[^ <>\n]*>"),      # autolinks
    re.compile(r"\]\([^)\n]*\)"),                            # link / image destinations (with title)
    re.compile(r"(?:https?|ftp)://[^\s<>]+"),                # bare URLs
    re.compile(r"^[ >]*\[(?!\^)[^\]\n]+\]:[^\n]*$", re.M),    # reference definitions (not footnote definitions)
    re.compile(r"\\[\"']"),                                  # backslash-escaped quotes
]


def protected_mask(text: str) -> list[bool]:
    mask = [False] * len(text)
    # fenced code blocks (flowmark always emits fenced code)
    pos = 0
    fence = None
    for line in text.split("\n"):
        m = _FENCE.match(line)
        end = pos + len(line)
        if fence is None:
            if m:
                fence = m.group(2)
                for i in range(pos, min(end + 1, len(text))):
                    mask[i] = True
        else:
            for i in range(pos, min(end + 1, len(text))):
                mask[i] = True
            if m and m.group(2)[0] == fence[0] and len(m.group(2)) >= len(fence) and line.strip(" >").strip(fence[0]) == "":
                fence = None
        pos = end + 1
    for pat in PROT_PATTERNS:
        for m in pat.finditer(text):
            for i in range(m.start(), m.end()):
                mask[i] = True
    return mask


CLS = {'"': "q2", "'": "q1", "“": "L2", "”": "R2", "‘": "L1", "’": "R1"}


BLOCK_START = re.compile(r"(?:[-*+]|\d{1,9}[.)])(?:\s|$)|#{1,6}(?:\s|$)|\[\^?[^\]]+\]:|\|")


def scopes(text: str) -> list[int]:
    """scope number of every position of a formatted text: a new scope (paragraph, heading, list item, table cell, definition) starts after a
    blank line, at a line that opens a block, and at every unescaped pipe of a table line"""
    seg, cur, pos, prev_blank = [0] * len(text), 0, 0, True
    for line in text.split("\n"):
        body = line.lstrip(" >")
        if not body or prev_blank or BLOCK_START.match(body):
            cur += 1
        table = body.startswith("|")
        for k, ch in enumerate(line):
            if table and ch == "|" and (k == 0 or line[k - 1] != "\\"):
                cur += 1
            seg[pos + k] = cur
        if pos + len(line) < len(text):
            seg[pos + len(line)] = cur
        prev_blank = not body
        pos += len(line) + 1
    return seg


def diff_trace(off: str, on: str) -> dict:
    mask = protected_mask(off)
    seg = scopes(off)
    diffs = []
    n = min(len(off), len(on))
    for i in range(n):
        if off[i] != on[i]:
            diffs.append(dict(c=CLS.get(off[i], "x"), d=CLS.get(on[i], "x"), prot=mask[i], pos=i, seg=seg[i]))
    nl_off = [i for i, ch in enumerate(off) if ch == "\n"]
    nl_on = [i for i, ch in enumerate(on) if ch == "\n"]
    return dict(len_off=len(off), len_on=len(on), nl_same=nl_off == nl_on, diffs=diffs[:200], trunc=len(diffs) > 200)


# ---------------- quote-bearing documents ----------------
QUOTE_DOCS = [
    ('para', 'He said "hello there" and it\'s fine. \'Single quoted\' words too. James\' book and Jill\'s book.\n'),
    ('code_span', 'Use `x = "str"` and `it\'s` then "quote `code "inner"` more" done. Don\'t touch `\'a\'`.\n'),
    ('code_block', 'Text "before".\n\n```python\ns = "don\'t"\nt = \'x\'\n```\n\n    indented "code" isn\'t prose\n\n"After" it\'s done.\n'),
    ('tags', '{% field kind="string" label=\'x\' %}\n"Quoted prose" here isn\'t code.\n{% /field %}\n\nInline {{ var|default("x") }} and {# it\'s "a" comment #} and <!-- "html" comment\'s --> "end".\n'),
    ('html', 'A <span class="x" title=\'y\'>"quoted" text</span> and <a href="http://e.com/?q=\'1\'">it\'s</a> here.\n'),
    ('links', 'See ["link" text](http://example.com/it\'s?a="b" "Title \'t\'") and <http://auto.link/it\'s> and http://bare.url/"x"/it\'s now. "Done".\n'),
    ('refs', 'A ["ref"][r] and [r] it\'s.\n\n[r]: http://example.com/"q"/it\'s "The \'title\'"\n'),
    ('escapes', 'Escaped \\"quotes\\" and \\\'single\\\' stay, but "these" don\'t.\n'),
    ('emphasis', 'Quotes **"across bold"** and *\'across italic\'* and "start **bold** end" and ~~"strike"~~ it\'s.\n'),
    ('two_paras', '"An unclosed quote in the first paragraph\n\nand closed in the second" paragraph. It\'s "fine" here.\n'),
    ('heading_table', '# The "quoted" heading\'s title\n\n| "a" | it\'s |\n|---|---|\n| `"c"` | \'d\' |\n\n> "Quote" in quote\'s text\n\n- "item" one\'s\n'),
    ('setext', 'A "setext" heading\'s text\n===\n\nbody "text" isn\'t special\n'),
    ('nested_quotes', '"Outer \'inner quoted\' outer" and \'single "double inside" single\' and "a" "b" \'c\' \'d\'.\n'),
    ('punct', 'He said ("paren") and —"dash"— and "end". "End"! "Q"? x="attr" y=\'attr\' 5\'10" tall and rock\'n\'roll.\n'),
    ('footnote', 'Text[^1] "quoted".\n\n[^1]: The "note" isn\'t long.\n'),
    # sentence ends next to quotes: the curly spelling must end a sentence exactly where the straight one does (semantic mode)
    ('sentence_ends', 'She finally called the whole project "done". Then everybody went home happy and slept. He asked whether it was \'really over\'! '
                      'Nobody in the room could say "maybe"? The answer came later that week, "it is finished." Everyone was glad to hear '
                      'that it \'was so.\' And then the report said (in a "footnote"). Last sentence of the paragraph here.\n'),
    # tags whose body contains their own delimiter character stay protected
    ('tags_own_delims', 'Row {% if loop.index % 2 == 0 and kind == "odd" %} is "odd" and {# issue #12 isn\'t "x" #} and {{ {"a": 1}["a"] or "none" }} don\'t change.\n\n'
                        '{% set pct = "50%" %}\n"Quoted" line {%- if a % b -%} it\'s {%- endif -%} here.\n'),
    # scopes whose composite text starts or ends with a non-text inline that holds edge spaces
    ('code_first', '` --verbose` sets the "mode" value and it\'s fine.\n\n# ` x` isn\'t "plain"\n\n| ` a` "q" | it\'s |\n|---|---|\n| "b" ` c ` | \'d\' |\n\n- ` lead` item\'s "text"\n\n"ends with code" ` tail `\n'),
    # quotes that would pair only across two scopes (cells of one row, items, heading + paragraph, two quotes) pair with nothing
    ('cross_scope', '| Name "x | Note |\n| --- | --- |\n| say "yes | or no" ok |\n| \'a | b\' |\n\n- item "one\n- two" end\n\n# Head "open\n\nclosed" in the paragraph.\n\n'
                    '> quote "open\n\n> closed" next quote\n\n1. \'first\n2. second\' end\n'),
    ('sentence_ends_list', '- The first item says it is "done". And then a second sentence follows here.\n- Another item asks \'why not\'? Because the answer is long enough.\n\n'
                           '> Quoted text ends with "this". Then another sentence inside the quote.\n'),
]
