"""Parallel map over the 16 cores (fork start method; workers import flowmark from /repo/src)."""
from __future__ import annotations

import multiprocessing as mp
import os

NPROC = int(os.environ.get("VERIF_NPROC", str(min(16, os.cpu_count() or 4))))


def pmap(fn, items, chunksize: int | None = None, procs: int | None = None) -> list:
    items = list(items)
    procs = procs or NPROC
    if len(items) < 64 or procs <= 1:
        return [fn(x) for x in items]
    cs = chunksize or max(1, min(2000, len(items) // (procs * 4)))
    ctx = mp.get_context("fork")
    with ctx.Pool(procs) as pool:
        return pool.map(fn, items, chunksize=cs)
