"""Writes /verif/MANIFEST.json from the table below (single source of truth for the interface)."""
from __future__ import annotations

import json
from pathlib import Path

VERIF = Path(__file__).resolve().parent.parent
ALL = [f"C{n:02d}" for n in range(1, 19)]

CHECKS = {
    "C01": dict(
        level="model_checking",
        text="Family S: TLC enumerates every document (token stream of a marko-shaped AST: paragraph, heading, code, blank line, quote, "
             "tight/loose list, item) of spec/RenderRead.tla up to the bound, renders it with the renderer machine spec/Render.tla (one action "
             "per render_* call, carrying prefix / second_prefix / suppress_item_break / skip_next_blank_line / tightness) and reads the "
             "emitted lines back with CommonMark's container rules (spec/Reader.tla). Every realisable document is formatted by the real "
             "reformat_text; spec/DocTrace.tla validates each observation: machine lines = observed lines (drift), Read(observed lines) = "
             "document, and -- the verdict -- equal normalised trees of input and output for the real marko AND markdown-it. Family T: 8 "
             "container paths x 30 structure-looking words at every non-initial position x widths x {fill, semantic}; paragraph lines are "
             "validated against the wrapper machines (WrapTrace / SentenceTrace) and the tree predicate. Further families: P (ordered pairs of 22 block "
             "snippets), C (each snippet inside 11 container paths), S+ (ordered lists, alerts, footnotes derived from the model's documents), R "
             "(construct corpus x widths x modes). Inline family: spec/Inline.tla -- CommonMark's delimiter-run reader (flanking, rule of three, one "
             "closer per step) composed with flowmark's emphasis renderer; every source string up to 5/7 symbols over {word, space, *, _, escaped "
             "star} is read by both parsers, formatted and read again, and spec/InlineTrace.tla validates reader and renderer machine against the "
             "observations and decides the equality. Table family: spec/TableRender.tla (render_table as head / delimiter / row actions; "
             "AlignKept, CellsKept, Shape) with every table up to 2 columns x 1/2 rows in rotating source spellings, validated by spec/TableTrace.tla. "
             "Line-end family: spec/LineEnds.tla (reader -> renderer -> wrapper, one action per stage, per line end of a paragraph with nine construct kinds x "
             "four kinds of line end; BreaksKept) replayed and validated by spec/LineEndsTrace.tla.",
        note="Trusted: the two real parsers as projections (harness/project.py), the concretiser harness/docgen.py. Inline fidelity is "
             "covered only through the tree comparison on generated texts. A failing case is excused only if it is step-for-step as-is "
             "model behaviour and an open finding's trigger is present (D2, D21, D31, D44, D46, D49).",
        technique="TLA+ model checking (TLC) of Render/Reader composition + spec->code replay + trace validation (DocTrace.tla)",
        design="§6 C01, §12"),
    "C02": dict(
        level="model_checking",
        text="Every realisable document of the bounded Render/Reader model (family S), the text family of C01 (structure-looking words at "
             "wrap points in 8 container paths, family T) and a corpus of 20 construct-rich documents under the option cube (width x {fill, "
             "semantic} x cleanups x smartquotes x ellipses x list-spacing, and plaintext; family R) are formatted twice by the real "
             "reformat_text, a subset through the CLI with --inplace twice. spec/IdemTrace.tla validates each pair: equal byte digests "
             "(verdict), equal abstracted lines, and for family S the second pass is itself a behaviour of the renderer machine "
             "(Render(Read(Render(d))) = Render(d) in the model). Also: heading shapes and tag-pair documents, every block snippet in 11 "
             "container paths, the inline family (spec/InlineTrace.tla: second pass emits the same symbols) and the table family (spec/TableTrace.tla).",
        note="Families S and T are exhaustive within their bounds; family R is a fixed corpus (not exhaustive). An idempotence failure is "
             "excused only as a consequence of an open C01 finding (first pass changed the structure AND the finding's trigger is present).",
        technique="TLA+ model checking (TLC) of the renderer/reader composition + two-pass replay + trace validation (IdemTrace.tla)",
        design="§6 C02, §12"),
    "C03": dict(
        level="model_checking",
        text="spec/Layout.tla: a paragraph is a word sequence (plain / sentence-ending / atomic / block-looking / tag); a layout gives each gap "
             "one of {1 space, 2+ spaces, newline, newline + extra indent, lazy newline}; the machine re-lays one gap at a time and TLC explores "
             "every reachable layout x 3 containers; Admissible defines the re-layouts the property quantifies over (no newline next to a tag, "
             "no block-looking word at a line start, lazy newline only in containers); CanonStable and OneSegment hold. Every admissible "
             "layout is concretised and formatted by the real reformat_text under 5 option sets and must give the bytes of the canonical "
             "single-space layout; for the canonical layout every ordered pair of option sets (o1 then o2) must give the bytes of o2 alone. "
             "spec/LayoutTrace.tla re-evaluates admissibility on each observation and reports the equality.",
        note="Layout relation: 0 failures. History relation: failures are excused only by counterfactual neutralisation (undo the first pass's "
             "escapes / re-join its lines => second pass agrees): D12, D41, and D21 when the first pass changed the structure.",
        technique="TLA+ model checking (TLC) of Layout.tla + exhaustive replay of admissible layouts + trace validation (LayoutTrace.tla)",
        design="§6 C03, §12"),
    "C04": dict(
        level="model_checking",
        text="spec/Code.tla models _render_code / _min_fence_length: every code block (fence ` or ~, length 3/4 or indented, three info-string "
             "shapes, content lines over 11 kinds incl. blank lines, prefix look-alikes and fence look-alikes of either character) under 6 "
             "container paths, one action per emitted line; TLC checks ContentVerbatim, BlankNoTrailing, FenceAdequate and FenceKept in every "
             "state. Every block is concretised in its container, formatted by the real reformat_text under typography options, the output "
             "block abstracted back to line records and validated by spec/CodeTrace.tla against the machine and the predicates. A second "
             "family embeds 25 kinds of inline non-prose span (code spans with backticks/spaces/quotes/dots, template tags, comments, inline "
             "HTML, autolinks, bare URLs, links/images with destinations and titles, reference and footnote labels) at several positions of a "
             "wrapping paragraph x widths x typography on/off x wrap mode x containers; TLC compares the ordered literal-span sequences of "
             "input and output (same extractor: real marko parse + tag/comment scanner). Line-end family: spec/LineEnds.tla / LineEndsTrace.tla decide Verbatim per "
             "line end inside a literal construct (no backslash invented or lost; finding D64 carved out by its trigger). Table family: spec/TableRender.tla / TableTrace.tla decide "
             "that alignments and cells (escaped pipes, code spans holding pipes) come out as authored for every table of the model.",
        note="Trusted: harness abstraction of output code blocks, marko as the reader of literal spans. Inline family is a fixed construct "
             "list (not exhaustive).",
        technique="TLA+ model checking (TLC) of Code.tla + replay + trace validation (CodeTrace.tla, sequence equality in DocTrace.tla)",
        design="§6 C04, §12"),
    "C05": dict(
        level="model_checking",
        text="TLC explores every behaviour of the implementation-shaped greedy-fill machine (spec/Wrap.tla) within "
             "small constants and checks Lossless/Indent/Bounded/Maximal/OneLine on it; every behaviour is replayed into "
             "wrap_paragraph_lines, wrap_paragraph, line_wrap_to_width, fill_text, reformat_text(plaintext) and into "
             "fill_markdown paragraphs at 10 container nestings, and each observed line structure is validated by TLC "
             "(spec/WrapTrace.tla) against the machine (drift) and the property predicates (verdict).",
        note="Trusted: harness/vocab.py projection (words <-> text), TLC. Bounded-exhaustive, not unbounded. "
             "Known findings D13, D15 are excused only on the exact trigger/clause recorded in known_findings.json.",
        technique="TLA+ model checking (TLC) of Wrap.tla + spec->code replay + batch trace validation (WrapTrace.tla)",
        design="§6 C05"),
    "C06": dict(
        level="model_checking",
        text="spec/Segments.tla models the tag-aware wrapper (add_tag_newline_handling around the greedy fill: segmentation at tag-adjacent "
             "newlines and block-looking lines, paired-tag tokens, denormalisation, blank-line joins, _fix_closing_tag_spacing, "
             "_fix_multiline_opening_tag_with_closing); TLC explores every paragraph of <= 2 source lines x <= 2-3 words over {word, opening "
             "tag, closing tag, -, |x} x indentation x widths x {plain, list item} and checks WordsPreserved and TagLinesStayAlone. Every "
             "behaviour is replayed into the real line_wrap_to_width(is_markdown=True) (and line_wrap_by_sentence for the predicates); "
             "spec/SegTrace.tla validates each observation against the machine (0 drift) and evaluates: atomic tokens whole, words "
             "preserved, unindented tag-only lines stay alone, authored separation between tags. A second family puts 13 atomic constructs "
             "into paragraphs at widths 1..24 in both modes (WrapTrace.tla: whole tokens, single spaces, over-width only for one token); a "
             "third formats tag-delimited blocks with prose / lists / tables through reformat_text (tag lines alone and unindented, block "
             "still a list/table in the real parse, blank-line separated).",
        note="Trusted: output parsers of the harness (fixed token sets). Known findings D22 (authored space between tags removed) and D40 "
             "(paired tag split on a continuation line) are excused only on their exact shapes.",
        technique="TLA+ model checking (TLC) of Segments.tla + exhaustive replay + trace validation (SegTrace.tla, WrapTrace.tla)",
        design="§6 C06, §12"),
    "C07": dict(
        level="model_checking",
        text="spec/Frontmatter.tla models a text as pieces (blank / --- / yaml / markdown) separated by LF, CRLF or a character that "
             "str.splitlines() splits on but that is not a line end (CR, VT, FF, FS, GS, RS, NEL, LS, PS), gives the reference reading (only "
             "LF/CRLF end lines; first --- to next ---; unclosed = the whole text) and split_frontmatter as a machine parameterised by the "
             "line splitter; TLC checks FmExact and BodyIndependent for every text up to the bound (and that the splitlines() splitter "
             "violates them). Every text is concretised with rotating piece texts and separator characters and observed through the public "
             "split_frontmatter and reformat_text under 3 option sets; spec/FmTrace.tla validates the classification against the machine "
             "and evaluates: block reproduced character for character (CRLF -> LF), output = block + format(body alone), unclosed = "
             "unchanged and a fixed point.",
        note="Piece texts are fixed representatives of their class. Bodies that themselves start with a --- line are discarded (the "
             "equation format(fm+body) = fm + format(body) is undefined for them).",
        technique="TLA+ model checking (TLC) of Frontmatter.tla + exhaustive replay + trace validation (FmTrace.tla)",
        design="§6 C07, §12"),
    "C08": dict(
        level="model_checking",
        text="spec/Typography.tla transcribes smart_quotes as a machine over an 11-symbol alphabet (tag segmentation, leftmost "
             "non-overlapping QUOTE_PATTERN matches with the consumed suffix, paragraph-break veto, per-word apostrophe rule); TLC checks "
             "QuoteProp (same length, only ' and \" change, only to a curly quote of their family, converted pairs never span a paragraph "
             "break) and TagsUntouched for every string up to the bound. Every string is concretised and run through the real "
             "smart_quotes; spec/TypoTrace.tla validates each real pair against the machine (drift) and the property. Document level: "
             "(smartquotes off, on) pairs of reformat_text outputs for 35 quote-bearing / construct-rich documents under the other option "
             "settings: same length, same line breaks, every differing position is a straight quote turned curly outside protected spans, and a converted "
             "opening quote and the next converted closing quote of its family lie in the same scope (paragraph, heading, list item, table cell).",
        note="Trusted: the protected-span scanner of harness/typo.py on generated documents; symbol classes represented by rotating concrete "
             "characters. The regex engine is bound by exhaustive replay, not modelled.",
        technique="TLA+ model checking (TLC) of the Quotes machine + exhaustive string replay + on/off differential trace validation (TypoTrace.tla)",
        design="§6 C08, §12"),
    "C09": dict(
        level="model_checking",
        text="spec/Typography.tla transcribes ellipses() as a machine over a 7-symbol alphabet (ELLIPSIS_PATTERN: start of the text or word/quote "
             "prefix, optional spaces, three dots, optional punctuation, trailing spaces, boundary test, inserted spaces); TLC checks "
             "EllipsisProp (undoing the rewrite gives the same text for input and output), OnlyThreeDotRuns and idempotence for every "
             "string up to the bound. Every string is run through the real ellipses(); spec/TypoTrace.tla validates each real pair against "
             "the machine and the property. Document level: (ellipses off, on) pairs for 44 documents under the other option settings: "
             "normalised marko trees of the two outputs are identical once text nodes pass through the inverse mapping (same structure, "
             "same code/tags/HTML/URLs, same prose); applying the option again changes nothing.",
        note="Trusted: the real marko parse of both outputs (harness/project.py). Idempotence at document level is judged without smart "
             "quotes in the option set (their own non-idempotence is C02's finding D37).",
        technique="TLA+ model checking (TLC) of the Ellipses machine + exhaustive string replay + on/off differential trace validation (TypoTrace.tla)",
        design="§6 C09, §12"),
    "C10": dict(
        level="model_checking",
        text="spec/Transforms.tla states Unbold as a function on the preorder node sequence of a document and SpacingProp on what a reader "
             "sees (blank-line gaps between consecutive non-blank lines; per list: item count, single-block items, tightness). Documents = "
             "every realisable list-bearing document of the bounded Render model, 20 heading shapes with every mix of emphasis, and the "
             "construct-rich corpus; each is formatted with cleanups off/on and list-spacing preserve/loose/tight under other option "
             "settings. TLC evaluates on every observation: flat(tree(on)) = Unbold(flat(tree(off))); non-blank lines identical, blank "
             "lines differ only directly before list items, loose => every list with >= 2 items reads loose, tight => every list whose "
             "items hold one block reads tight and no blank line is added.",
        note="Trusted: real marko parse of both outputs; harness recognition of blank lines / list-item lines. The Unbold/Spacing "
             "functions are evaluated by TLC on recorded observations (no exhaustive state exploration beyond the Render model that "
             "supplies the documents).",
        technique="TLA+ functions (Transforms.tla) evaluated by TLC on on/off observations of model-enumerated documents",
        design="§6 C10, §12"),
    "C11": dict(
        level="model_checking",
        text="TLC explores every behaviour of spec/SentenceWrap.tla (one action per sentence of line_wrap_by_sentence, inner greedy "
             "fill as operator) and checks P1 (breaks only after sentence ends or width-forced), P2 (sentence end => break unless "
             "the line so far is shorter than min_line_len) and DiffLocal (self-composition over every single-sentence edit). Every "
             "behaviour and every edit pair is replayed into the real line_wrap_by_sentence(width, min_line_len) -- also after each "
             "sentence, so the machine's state is compared after every action -- plus an end-to-end reformat_text(semantic=True) "
             "family in containers; spec/SentenceTrace.tla validates each observation (drift) and evaluates P1/P2/Local (verdict).",
        note="Trusted: harness/vocab.py projection, TLC. Sentence ends are generated words matching SENTENCE_END_RE; the regex "
             "engine itself is not modelled. Known findings D14/D13 excused only on triggered lines of as-is behaviour.",
        technique="TLA+ model checking (TLC) with self-composition for diff locality + stepwise spec->code replay + batch trace validation",
        design="§6 C11"),
    "C14": dict(
        level="model_checking",
        text="TLC explores the write protocol spec/AtomicWrite.tla (reformat_files/reformat_file/atomic_output_file; fault on every "
             "file-system operation, crash before every operation; in-place with/without backup, stdout, -o; 1-2 files; every subset "
             "of undecodable inputs) and checks TargetIntact, NoTouchWithoutInplace, FailureAtomic, PerFileAllOrNothing, Untouched in "
             "every state. Every terminal scenario is replayed on the real CLI with strace syscall injection (errno or SIGKILL at the "
             "k-th invocation located by a dry run), plus a kill at every file-system event of every fault-free run (target = regular file, symbolic "
             "link to the file, or file with a second hard link; stale .orig of an earlier run; -o naming the input itself); the syscall log "
             "of each run is validated by spec/FsTrace.tla with the invariants evaluated after every event, and the real final disk "
             "state is classified and judged.",
        note="Trusted: strace injection semantics, role recognition by file name, TLC. Torn writes inside one write(2) are modelled "
             "(CrashMid) but not reproducible by injection. Durability (fsync) is outside the property.",
        technique="TLA+ model checking (TLC) of AtomicWrite.tla + fault/crash scenario replay via strace injection + syscall-trace validation (FsTrace.tla)",
        design="§6 C14"),
    "C12": dict(
        level="exploration",
        text="spec/Pipeline.tla is the staged call protocol of reformat_text / fill_markdown (SplitFM, Preprocess, Parse, [Cleanups], "
             "[Quotes], [Ellipses], Render, Return; plaintext: Fill, Return); it has no Raise and no Timeout action, TLC checks Terminates "
             "under weak fairness and the stage order. Inputs: every string of <= 2 (quick) / <= 3 (thorough, every second) symbols over a "
             "50-symbol alphabet of delimiters, markers, control characters (NUL, CR, TAB, VT, LS), placeholder look-alikes and filler; seeded "
             "soups of 3..40 symbols; the construct corpus; nesting to depth 12; each with a rotating option point (6 widths incl. negative and "
             "10^6 x 32 switch combinations x 3 list spacings, plaintext) under a CPU-time watchdog. spec/PipeTrace.tla decides per call: it "
             "returned (no raise / timeout), the recorded stage functions equal the machine's stage sequence, and the result is a str ending "
             "in a newline (Markdown mode) without control or placeholder bytes absent from the input and without added trailing spaces on "
             "blank code lines. Pumped families (delimiter runs, long paragraphs / lists / tables / link and tag runs) are timed at n, 2n, 4n, and every "
             "family plus long whitespace runs in code / as trailing spaces / wide table cells at ~30 KB must stay within a fixed CPU budget (StaysModest).",
        note="Exploration level: inputs are enumerated/sampled, not a closed model. The growth clause is a CPU-time measurement with a "
             "doubling-ratio test (x6 above a 0.25 s floor) and an absolute budget 7x above the slowest family of the unchanged tree -- TLA+ says nothing "
             "about performance; it is the weakest clause. Finding D70 (marko quadratic on a 24 000-space run in a paragraph line) is excused on its exact witness.",
        technique="TLA+ call-protocol spec (TLC: termination, stage order) + spec-guided input exploration + trace validation (PipeTrace.tla)",
        design="§6 C12, §7, §12"),
    "C13": dict(
        level="model_checking",
        text="TLC explores spec/Isolation.tla (2-3 concurrent calls x steps, preemption-bounded scheduler, taint through shared cells): "
             "Isolated holds for the as-is sharing structure under every schedule and fails as soon as one step touches a shared "
             "mutable cell. Every complete schedule of the model is executed against the real reformat_text under a cooperative "
             "deterministic scheduler (one runnable thread, switches only at call events of flowmark/marko code) for pairs/triples of "
             "leak-sensitive (document, options) calls, plus seeded fine-grained schedules and single-process histories (ordered "
             "pairs/triples of calls); spec/IsoTrace.tla validates that the executed schedule is a behaviour of the model and that every "
             "result equals the result of the same call in a freshly spawned interpreter. Documents whose last block leaves a renderer flag set / whose "
             "first block is sensitive to one are run as every ordered same-option pair in every tier.",
        note="Trusted: the scheduler (switch points = Python call events of flowmark/marko files; no preemption inside C code), "
             "spawned-interpreter solo oracle. Schedules are bounded (<= 3 preemptions at segment granularity) plus random fine-grained ones.",
        technique="TLA+ model checking (TLC) of Isolation.tla + schedule replay under a deterministic scheduler + trace validation (IsoTrace.tla)",
        design="§6 C13"),
    "C15": dict(
        level="model_checking",
        text="The option space {width 0/40/88} x plaintext x semantic x cleanups x smartquotes x ellipses x list-spacing x 18 entry points "
             "(CLI file/stdin to stdout/-o/in place, --auto, several files, reformat_file, reformat_files, reformat_text, six usage "
             "errors: no input, -o with several files / with a directory / with a glob that yield two files, --inplace with stdin alone / next to a file) is finite; TLC explores spec/EntryPoints.tla completely (option record threaded argv -> Options -> reformat_files "
             "-> reformat_file -> reformat_text -> sink; SinkCorrect; three re-wiring mutants of the model are rejected). Every point is "
             "executed on the real code on a probe document that separates all option points (checked), and spec/EntryTrace.tla "
             "validates each observation: bytes equal reformat_text(probe, **Expected), exit code, nothing else written, per-file results. Byte-level "
             "family: already formatted files stored with CRLF / LF / a leading UTF-8 BOM through the in-place, stdout and stdin entry points.",
        note="Trusted: in-process cli.main with redirected stdio (a seeded subset is re-run as real subprocesses); the reference is the "
             "text API of the same tree (agreement, not absolute correctness).",
        technique="TLA+ model checking (TLC) of a complete finite product + execution of every point + trace validation (EntryTrace.tla)",
        design="§6 C15"),
    "C16": dict(
        level="model_checking",
        text="TLC explores spec/Config.tla completely: the merge machine (Parse records explicit flags, Merge applies config values unless "
             "explicit or locked by --auto) against the independently written Effective for every ordered pair of the 12 settings x flag "
             "state (absent / given with default value / given other) x config state x --auto (5 328 points), and the upward file search "
             "against nearest-directory + .flowmark.toml > flowmark.toml > pyproject-with-table for all 4 096 populations of a 3-directory "
             "chain; four mutants of the model are rejected. Points are materialised as directory chains with config files in rotating "
             "styles (flat/sectioned, kebab/snake), the real CLI is run end to end (formatted probe bytes and --list-files on a probe "
             "tree), and spec/ConfigTrace.tla decides whether the specified source of each setting is consistent with the observed "
             "behaviour. Every key of the config dataclass must have an observable effect.",
        note="Trusted: reference runs of reformat_text / FileResolver on the same tree give the concrete behaviour of each candidate value; "
             "in-process cli.main. quick executes a seeded third/quarter of the points, thorough all.",
        technique="TLA+ model checking (TLC) of complete finite products + materialised end-to-end runs + trace validation (ConfigTrace.tla)",
        design="§6 C16"),
    "C18": dict(
        level="model_checking",
        text="spec/Gitignore.tla gives git's ignore semantics over a small universe (7 files at depth <= 3, 29 patterns: basename, anchored, "
             "multi-segment, dir-only, *, **, ?, negation of files / directories / everything (!e/, !e, !*, !*/), one-level star (*/a.md), **/e/; .gitignore at the root and in d/; last match wins per file, deepest file with an "
             "opinion wins, no re-inclusion below an excluded directory). TLC enumerates the configurations and checks chain-semantics "
             "invariants; each configuration is materialised in a scratch git repository and three listings are observed: git itself, "
             "flowmark with gitignore, flowmark with --no-respect-gitignore. spec/GitTrace.tla decides flowmark = git (verdict, both real) "
             "and that the off-switch lists everything; model = git is tracked as drift.",
        note="Oracle: the git binary on PATH. All 900 one-line configurations exhaustively; two-line configurations sampled by VERIF_SEED "
             "(700 quick / 12 000 thorough), every (p, q, p) sandwich, seeded three-line ones; overlapping walk roots. Patterns outside the 29 are not covered "
             "(three pathspec-level divergences outside the universe are listed in DESIGN 12.3).",
        technique="TLA+ model of gitignore semantics (TLC) + differential replay against git + trace validation (GitTrace.tla)",
        design="§6 C18"),
    "C17": dict(
        level="model_checking",
        text="spec/Resolve.tla models FileResolver.resolve as a machine (ArgFile / ArgDir / ArgGlob with seen/result, then Sort) over a "
             "18-entry universe (sizes at and over the limit, default- and user-excluded directories, a .flowmarkignore rule, a second project directory "
             "with its own .flowmarkignore, a directory named like an included file, symlinks to a file inside / outside / dangling / oversized / to a directory) x 96 settings (incl. a path-anchored exclude whose verdict depends on the walk root) x every argument list up to the bound, and states the "
             "property declaratively as Must <= result <= Must u May; TLC checks Complete, SoundK (open findings carved out by trigger) and "
             "OrderFree on every state. Every point is materialised on disk; FileResolver.resolve, the reversed argument list, a permuted "
             "directory listing order and (a subset) `flowmark --list-files` are observed, and spec/ResolveTrace.tla decides soundness, "
             "completeness, absolute/sorted/duplicate-free shape and order independence per observation.",
        note="Trusted: one rich tree instead of all trees (filters are per-file), identification of listed paths with universe entries. "
             "quick: argument lists <= 2, every second point; thorough: lists <= 3, all 120 576 points.",
        technique="TLA+ model checking (TLC) of Resolve.tla + materialised replay + trace validation (ResolveTrace.tla)",
        design="§6 C17"),
}

NOT_YET = "check not built yet in this phase (planned, see DESIGN.md §6)"


def build() -> dict:
    checks = []
    for pid in ALL:
        if pid not in CHECKS:
            continue
        c = CHECKS[pid]
        checks.append({
            "property_id": pid,
            "quick_cmd": f"./check {pid} --tier quick",
            "thorough_cmd": f"./check {pid} --tier thorough",
            "evidence_file": f"/verif/evidence/{pid}.json",
            "replay_cmd_template": f"./check {pid} --replay {{path}}",
            "engine": "check",
            "level_claimed": {"category": c["level"], "text": c["text"], "design_ref": c["design"]},
            "level_note": c["note"],
            "technique": c["technique"],
        })
    return {
        "version": 1,
        "setup_cmd": "./check setup",
        "hooks": {
            "guard": "FLOWMARK_VERIF",
            "enable": "no source hook is needed: checks import flowmark from /repo/src (PYTHONPATH) and observe public "
                      "API results, the public line_wrapper= parameter, sys.settrace by module path and strace logs; "
                      "./check exports FLOWMARK_VERIF=1 for any future guarded hook",
            "baseline_off_cmd": "cd /repo && /venv/bin/python -m pytest -q -p no:cacheprovider --timeout=900",
            "source_commits": [],
            "add_only": True,
        },
        "engines": [{"name": "check", "path": "/verif/check", "serves_properties": sorted(CHECKS),
                     "kind_free_text": "TLA+/TLC model checking + spec->code replay + TLC batch trace validation"}],
        "checks": checks,
        "not_applicable": [{"property_id": p, "reason": NA.get(p, NOT_YET)} for p in ALL if p not in CHECKS],
        "notes": "See DESIGN.md. Verdict rule: VIOLATION only when a property-level predicate fails on real observable "
                 "behaviour and the case is not attributed to an open entry of known_findings.json; exit 2 = machinery failure.",
    }


NA: dict[str, str] = {}

if __name__ == "__main__":
    (VERIF / "MANIFEST.json").write_text(json.dumps(build(), indent=1) + "\n")
    print("MANIFEST.json written:", len(build()["checks"]), "checks")
