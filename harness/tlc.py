"""Run TLC and parse its output.

Every TLC run of the framework goes through `run_tlc`:
  * the module lives in /verif/spec, the cfg is generated (literal constants) into a scratch dir,
  * reports are emitted by the specs as `PrintT(ToJson(<<...>>))` -> one JSON string per line,
    robust under 16 interleaving workers; they are decoded with json.loads twice,
  * state counts are parsed from TLC's summary line,
  * an `Error:` in the output or a non-zero exit that is not a plain invariant report is a
    machinery failure (TlcError -> exit 2 by the caller), never a property verdict.
"""
from __future__ import annotations

import json
import os
import re
import shutil
import subprocess
import tempfile
import time
from dataclasses import dataclass, field
from pathlib import Path

SPEC_DIR = Path(__file__).resolve().parent.parent / "spec"
TLA_JAR = "/opt/veriftools/tla/tla2tools.jar:/opt/veriftools/tla/CommunityModules-deps.jar"


class TlcError(RuntimeError):
    pass


@dataclass
class TlcResult:
    module: str
    generated: int = 0
    distinct: int = 0
    reports: list = field(default_factory=list)
    wall_s: float = 0.0
    stdout: str = ""
    violated: list = field(default_factory=list)  # names of violated invariants/properties
    coverage: dict = field(default_factory=dict)  # action -> (distinct, total)
    cmd: str = ""


_SUMMARY = re.compile(r"(\d+) states generated, (\d+) distinct states found")
_VIOL = re.compile(r"Error: (?:Invariant|Action property|Temporal property) (\S+) (?:is|was) violated")
_COV = re.compile(r"^<(\w+) line \d+, col \d+ to line \d+, col \d+ of module (\w+)>: (\d+):(\d+)", re.M)


def scratch_dir(prefix: str = "verif-") -> str:
    return tempfile.mkdtemp(prefix=prefix)


def cfg_text(spec: str = "Spec", constants: dict | None = None, invariants=(), properties=(),
             constraints=(), view: str | None = None, deadlock: bool = False,
             init: str | None = None, next_: str | None = None, postcondition: str | None = None,
             action_constraints=()) -> str:
    out = []
    if init and next_:
        out += [f"INIT {init}", f"NEXT {next_}"]
    else:
        out.append(f"SPECIFICATION {spec}")
    if constants:
        out.append("CONSTANTS")
        for k, v in constants.items():
            out.append(f"  {k} = {tla_value(v)}")
    for i in invariants:
        out.append(f"INVARIANT {i}")
    for p in properties:
        out.append(f"PROPERTY {p}")
    for c in constraints:
        out.append(f"CONSTRAINT {c}")
    for c in action_constraints:
        out.append(f"ACTION_CONSTRAINT {c}")
    if view:
        out.append(f"VIEW {view}")
    if postcondition:
        out.append(f"POSTCONDITION {postcondition}")
    out.append(f"CHECK_DEADLOCK {'TRUE' if deadlock else 'FALSE'}")
    return "\n".join(out) + "\n"


def tla_value(v) -> str:
    """Python value -> TLA+ constant expression as accepted in a cfg file."""
    if isinstance(v, bool):
        return "TRUE" if v else "FALSE"
    if isinstance(v, int):
        return str(v)
    if isinstance(v, str):
        if v.startswith("@"):  # raw: model value / identifier
            return v[1:]
        return json.dumps(v)
    if isinstance(v, (set, frozenset)):
        return "{" + ", ".join(tla_value(x) for x in sorted(v, key=repr)) + "}"
    if isinstance(v, (list, tuple)):
        return "<<" + ", ".join(tla_value(x) for x in v) + ">>"
    raise TypeError(f"cannot render {v!r} as TLA value")


def run_tlc(module: str, cfg: str, *, env: dict | None = None, workers: int | str = 16,
            timeout: int = 600, simulate: str | None = None, depth: int | None = None,
            seed: int | None = None, coverage: bool = False, spec_dir: Path | None = None,
            allow_violation: bool = False, keep_stdout: bool = False, heap: str = "6g",
            dfs_queue: bool = False) -> TlcResult:
    sd = Path(spec_dir or SPEC_DIR)
    tla = sd / f"{module}.tla"
    if not tla.exists():
        raise TlcError(f"missing spec {tla}")
    scratch = scratch_dir("tlc-")
    try:
        cfgp = Path(scratch) / f"{module}.cfg"
        cfgp.write_text(cfg)
        cmd = ["java", "-XX:+UseParallelGC", f"-Xmx{heap}"]
        if dfs_queue:
            cmd.append("-Dtlc2.tool.queue.IStateQueue=StateDeque")
        cmd += ["-cp", TLA_JAR, "tlc2.TLC", "-workers", str(workers), "-metadir",
                os.path.join(scratch, "meta"), "-noGenerateSpecTE", "-config", str(cfgp)]
        if simulate is not None:
            cmd += ["-simulate", simulate]
        if depth is not None:
            cmd += ["-depth", str(depth)]
        if seed is not None:
            cmd += ["-seed", str(seed)]
        if coverage:
            cmd += ["-coverage", "1"]
        cmd.append(str(tla))
        e = dict(os.environ)
        e.pop("JAVA_TOOL_OPTIONS", None)
        if env:
            e.update({k: str(v) for k, v in env.items()})
        t0 = time.time()
        try:
            p = subprocess.run(cmd, cwd=str(sd), env=e, capture_output=True, text=True,
                               timeout=timeout)
        except subprocess.TimeoutExpired as ex:
            raise TlcError(f"TLC timeout after {timeout}s on {module}") from ex
        out = p.stdout
        res = TlcResult(module=module, wall_s=time.time() - t0, cmd=" ".join(cmd[:2] + ["..."] + cmd[-8:]))
        for m in _SUMMARY.finditer(out):
            res.generated, res.distinct = int(m.group(1)), int(m.group(2))
        res.violated = _VIOL.findall(out)
        for m in _COV.finditer(out):
            res.coverage[m.group(1)] = (int(m.group(3)), int(m.group(4)))
        for ln in out.splitlines():
            if ln.startswith('"'):
                try:
                    res.reports.append(json.loads(json.loads(ln)))
                except Exception:
                    pass
        if keep_stdout:
            res.stdout = out
        errs = [ln for ln in out.splitlines() if ln.startswith("Error:")]
        hard = [x for x in errs if not _VIOL.match(x) and "behavior up to this point" not in x.lower()
                and "The behavior up to" not in x]
        if (hard or (p.returncode != 0 and not res.violated)) and simulate is None:
            tail = "\n".join(out.splitlines()[-40:])
            raise TlcError(f"TLC failed on {module} (rc={p.returncode}):\n{tail}\n{p.stderr[-2000:]}")
        if res.violated and not allow_violation:
            tail = "\n".join(out.splitlines()[-60:])
            res.stdout = out
            raise TlcViolation(res, f"TLC: {res.violated} violated in {module}\n{tail}")
        return res
    finally:
        shutil.rmtree(scratch, ignore_errors=True)


class TlcViolation(TlcError):
    def __init__(self, res: TlcResult, msg: str):
        super().__init__(msg)
        self.res = res


def sany(module: str, spec_dir: Path | None = None) -> None:
    sd = Path(spec_dir or SPEC_DIR)
    p = subprocess.run(["java", "-cp", TLA_JAR, "tla2sany.SANY", f"{module}.tla"], cwd=str(sd),
                       capture_output=True, text=True, timeout=120)
    if p.returncode != 0 or "*** Errors" in p.stdout or "Fatal errors" in p.stdout or "Could not" in p.stdout:
        raise TlcError(f"SANY failed on {module}:\n{p.stdout[-3000:]}")


def write_traces(traces: list, path: str) -> None:
    with open(path, "w") as f:
        json.dump(traces, f, separators=(",", ":"))


def validate_traces(module: str, traces: list, *, cfg: str | None = None, workers: int | str = 16,
                    timeout: int = 900, chunk: int = 20000, extra_env: dict | None = None) -> tuple[dict, int, int]:
    """Batch trace validation: feed `traces` (each must carry a unique integer `id`) to the trace spec
    `module` in chunks, return ({id: report}, states_generated, distinct). Each report is the decoded
    JSON tuple the spec printed for that id; a trace id without report is a machinery failure."""
    reports: dict = {}
    gen = dist = 0
    cfg = cfg or cfg_text()
    for i in range(0, len(traces), chunk):
        part = traces[i:i + chunk]
        scratch = scratch_dir("tr-")
        try:
            tf = os.path.join(scratch, "traces.json")
            write_traces(part, tf)
            env = {"TRACE_FILE": tf}
            if extra_env:
                env.update(extra_env)
            r = run_tlc(module, cfg, env=env, workers=workers, timeout=timeout)
            gen += r.generated
            dist += r.distinct
            for rep in r.reports:
                if isinstance(rep, list) and rep and rep[0] == "R":
                    reports[rep[1]] = rep
        finally:
            shutil.rmtree(scratch, ignore_errors=True)
    missing = [t["id"] for t in traces if t["id"] not in reports]
    if missing:
        raise TlcError(f"{module}: {len(missing)} traces without a report, e.g. ids {missing[:5]}")
    return reports, gen, dist
