"""Abstract documents (token streams of spec/Render.tla) <-> Markdown source text, and real output lines -> abstract lines.

Tokens: P paragraph, H heading, B BlankLine, C fenced code, "Q(" quote, "Lt("/"Ll(" tight/loose bullet list, "I(" item,
")" close.  Extended tokens understood by the concretiser only (not yet by the Render model): R thematic break,
T table, "Ot("/"Ol(" ordered list, "A(" alert, "F(" footnote definition."""
from __future__ import annotations


def src(toks: list[str], para: str = "para", head: str = "# head") -> str:
    """Concretise a token stream to source text (best effort; realisability is established by re-parsing)."""
    out: list[str] = []
    stack: list[dict] = []

    def first_prefix():
        p = ""
        for fr in stack:
            if fr["kind"] == "Q":
                p += "> "
            elif fr["kind"] == "I":
                if fr["fresh"]:
                    p += fr["marker"]
                    fr["fresh"] = False
                else:
                    p += " " * len(fr["marker"])
            elif fr["kind"] == "F":
                if fr["fresh"]:
                    p += "[^1]: "
                    fr["fresh"] = False
                else:
                    p += "    "
        return p

    def cont_prefix(blank=False):
        p = ""
        for fr in stack:
            if fr["kind"] == "Q":
                p += "> "
            elif fr["kind"] == "I":
                p += " " * len(fr["marker"])
            elif fr["kind"] == "F":
                p += "    "
        return p.rstrip() if blank else p
    for t in toks:
        if t == "P":
            out.append(first_prefix() + para)
        elif t == "H":
            out.append(first_prefix() + head)
        elif t == "C":
            out.append(first_prefix() + "```")
            out.append(cont_prefix() + "code")
            out.append(cont_prefix() + "```")
        elif t == "R":
            out.append(first_prefix() + "* * *")
        elif t == "T":
            out.append(first_prefix() + "| a | b |")
            out.append(cont_prefix() + "| --- | --- |")
            out.append(cont_prefix() + "| 1 | 2 |")
        elif t == "B":
            out.append(cont_prefix(True))
        elif t == "Q(":
            stack.append(dict(kind="Q"))
        elif t == "A(":
            out.append(first_prefix() + "> [!NOTE]")
            stack.append(dict(kind="Q"))
        elif t in ("Lt(", "Ll(", "Ot(", "Ol("):
            stack.append(dict(kind="L", loose=t[1] == "l", ordered=t[0] == "O", n=0))
        elif t == "I(":
            lst = stack[-1]
            if lst["n"] > 0 and lst["loose"]:
                out.append(cont_prefix(True))
            lst["n"] += 1
            marker = f"{lst['n']}. " if lst["ordered"] else "- "
            stack.append(dict(kind="I", fresh=True, marker=marker))
        elif t == "F(":
            stack.append(dict(kind="F", fresh=True))
        elif t == ")":
            stack.pop()
    return "\n".join(out) + "\n"


def real_toks(text: str) -> list[str]:
    """The token stream of marko's AST for `text` (marko as configured by flowmark)."""
    from flowmark.formats.flowmark_markdown import flowmark_markdown
    doc = flowmark_markdown().parse(text)
    out: list[str] = []

    def walk(e):
        n = type(e).__name__
        if n == "Paragraph":
            out.append("P")
        elif n in ("Heading", "SetextHeading"):
            out.append("H")
        elif n == "BlankLine":
            out.append("B")
        elif n in ("FencedCode", "CustomFencedCode", "CodeBlock"):
            out.append("C")
        elif n == "ThematicBreak":
            out.append("R")
        elif n == "Table":
            out.append("T")
        elif n == "Quote":
            out.append("Q(")
            [walk(c) for c in e.children]
            out.append(")")
        elif n in ("Alert", "CustomAlert"):
            out.append("A(")
            [walk(c) for c in e.children]
            out.append(")")
        elif n == "List":
            out.append(("O" if e.ordered else "L") + ("t(" if e.tight else "l("))
            [walk(c) for c in e.children]
            out.append(")")
        elif n == "ListItem":
            out.append("I(")
            [walk(c) for c in e.children]
            out.append(")")
        elif n == "FootnoteDef":
            out.append("F(")
            [walk(c) for c in e.children]
            out.append(")")
        else:
            out.append("?" + n)
    for c in doc.children:
        walk(c)
    while out and out[-1] == "B":
        out.pop()
    return out


def absline(line: str):
    """One output line -> [markers, body] over markers Q (quote '>'), B (bullet '- '), I (two-space indent);
    None for code content lines (not modelled by the Render prototype)."""
    p = []
    rest = line
    while True:
        if rest.startswith("> "):
            p.append("Q")
            rest = rest[2:]
        elif rest == ">":
            p.append("Q")
            rest = ""
        elif rest.startswith(">"):
            p.append("Q")
            rest = rest[1:]
        elif rest.startswith("- "):
            p.append("B")
            rest = rest[2:]
        elif rest.startswith("  "):
            p.append("I")
            rest = rest[2:]
        else:
            break
    if rest.strip() == "":
        b = "blank"
    elif rest.startswith("#"):
        b = "head"
    elif rest.startswith("```"):
        b = "fence"
    elif rest == "* * *":
        b = "hr"
    elif rest == "| a | b |":
        b = "thead"
    elif rest == "| --- | --- |":
        b = "tdelim"
    elif rest == "| 1 | 2 |":
        b = "trow"
    elif rest == "code":
        return None
    else:
        b = "text"
    return {"p": p, "b": b}


def abslines(text: str) -> list[dict]:
    ls = text.split("\n")
    if ls and ls[-1] == "":
        ls.pop()
    return [a for a in map(absline, ls) if a]
