"""Check context: verdict bookkeeping, known-finding attribution, evidence and replay files."""
from __future__ import annotations

import hashlib
import json
import os
import random
import sys
import time
from pathlib import Path

VERIF = Path(__file__).resolve().parent.parent
REPO = Path(os.environ.get("VERIF_REPO", "/repo"))
EVID = VERIF / "evidence"
REPLAYS = VERIF / "replays"
FINDINGS_FILE = VERIF / "known_findings.json"
PY = "/venv/bin/python"


def load_findings() -> list[dict]:
    if FINDINGS_FILE.exists():
        return json.loads(FINDINGS_FILE.read_text())["findings"]
    return []


def digest(obj) -> str:
    return hashlib.sha1(json.dumps(obj, sort_keys=True, default=str).encode()).hexdigest()[:12]


class Check:
    """One run of one property's check."""

    def __init__(self, pid: str, tier: str, level: str, seed: int | None = None):
        self.pid = pid
        self.tier = tier
        self.level = level
        self.seed = int(os.environ.get("VERIF_SEED", "0")) if seed is None else seed
        self.rng = random.Random(self.seed)
        self.t0 = time.time()
        self.states = 0
        self.transitions = 0
        self.traces = 0
        self.evaluations = 0
        self.nontrivial: set = set()
        self.samples: list = []
        self.violations: list[dict] = []
        self.known: dict[str, dict] = {}      # finding id -> {count, example}
        self.drift: list = []
        self.discarded = 0
        self.notes: dict = {}
        self.assumptions: list[str] = []
        self.exhaustive = False
        self.rule = ""
        self.explanation = ""
        REPLAYS.mkdir(exist_ok=True)
        for old in REPLAYS.glob(f"{pid}-*.json"):
            old.unlink()
        self.findings = [f for f in load_findings() if f["property"] == pid or pid in f.get("also", [])]
        self.open_findings = {f["id"]: f for f in self.findings if f["status"] == "open"}

    # ---- accounting ----
    def add_tlc(self, res) -> None:
        self.states += res.distinct
        self.transitions += res.generated

    def sample(self, s, cap: int = 6) -> None:
        if len(self.samples) < cap:
            self.samples.append(s)

    def nontriv(self, key) -> None:
        # stored as a 64-bit hash: the thorough tiers register millions of keys
        self.nontrivial.add(hash(key) if isinstance(key, (str, int, tuple)) else digest(key))

    # ---- verdicts ----
    def known_finding(self, fid: str, example=None) -> None:
        k = self.known.setdefault(fid, {"count": 0, "example": None})
        k["count"] += 1
        if k["example"] is None and example is not None:
            k["example"] = example

    def violation(self, clause: str, case: dict) -> None:
        """Record a property-level violation on real observable behaviour (after attribution)."""
        v = {"property": self.pid, "clause": clause, "case": case}
        if len(self.violations) < 200:
            self.violations.append(v)
        else:
            self.violations.append({"clause": clause})

    def drift_note(self, what) -> None:
        if len(self.drift) < 20:
            self.drift.append(what)
        self.notes["drift_count"] = self.notes.get("drift_count", 0) + 1

    # ---- finish ----
    def finish(self) -> int:
        wall = time.time() - self.t0
        REPLAYS.mkdir(exist_ok=True)
        EVID.mkdir(exist_ok=True)
        replay_paths = []
        seen_clause: dict[str, int] = {}
        for v in self.violations:
            if "case" not in v:
                continue
            n = seen_clause.get(v["clause"], 0)
            seen_clause[v["clause"]] = n + 1
            if n >= 40:
                continue
            p = REPLAYS / f"{self.pid}-{digest(v)}.json"
            p.write_text(json.dumps(v, indent=1, default=str))
            replay_paths.append(str(p))
        cov = {
            "states": self.states,
            "transitions": self.transitions,
            "traces_validated_against_impl": self.traces,
            "evaluations": self.evaluations,
            "distinct_nontrivial": len(self.nontrivial),
            "rule": self.rule,
            "samples": self.samples or ["(none)"],
            "exhaustive": self.exhaustive,
            "drift": self.notes.get("drift_count", 0),
            "drift_examples": self.drift[:5],
            "discarded_ambiguous": self.discarded,
            "known_findings_hit": {k: v["count"] for k, v in self.known.items()},
            "explanation": self.explanation,
        }
        for k, v in self.notes.items():
            if k not in cov:
                cov[k] = v
        ev = {
            "property_id": self.pid,
            "tier": self.tier,
            "seed": self.seed,
            "level": self.level,
            "coverage": cov,
            "assumptions": self.assumptions,
            "wall_s": round(wall, 2),
            "violations": len(self.violations),
        }
        (EVID / f"{self.pid}.json").write_text(json.dumps(ev, indent=1, default=str))
        for fid, k in sorted(self.known.items()):
            f = self.open_findings.get(fid)
            title = f["title"] if f else fid
            print(f"KNOWN-FINDING: property={self.pid} {fid}: {title} ({k['count']} cases)")
        if self.violations:
            shown = set()
            for v, p in zip([v for v in self.violations if "case" in v], replay_paths):
                if v["clause"] in shown:
                    continue
                shown.add(v["clause"])
                print(f"VIOLATION property={self.pid} replay={p}")
                print(f"  clause={v['clause']} case={json.dumps(v['case'], default=str)[:600]}")
            if not shown:
                print(f"VIOLATION property={self.pid} replay=-")
            print(f"{self.pid}: {len(self.violations)} violation(s) in {wall:.1f}s")
            return 1
        print(f"{self.pid} OK tier={self.tier} evaluations={self.evaluations} states={self.states} "
              f"traces={self.traces} nontrivial={len(self.nontrivial)} drift={cov['drift']} "
              f"wall={wall:.1f}s")
        return 0


def machinery_failure(pid: str, msg: str) -> int:
    print(f"MACHINERY-FAILURE property={pid}: {msg}", file=sys.stderr)
    return 2
