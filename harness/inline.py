"""Inline family (spec/Inline.tla, spec/InlineTrace.tla): every source string over {word, space, *, _, escaped star} up to a bound,
concretised as one paragraph, read by marko and markdown-it, formatted by flowmark, read again.

Used by C01 (same inline structure after formatting) and C02 (second pass changes nothing)."""
from __future__ import annotations

import json
import re

from harness import project, tlc
from harness.par import pmap

SYMS = {"w", "s", "*", "_", "x"}
LETTERS = "abcdefghijklmnop"


def concretise(src) -> str:
    out, k = [], 0
    for sy in src:
        if sy == "w":
            out.append(LETTERS[k % len(LETTERS)] * 2)
            k += 1
        elif sy == "s":
            out.append(" ")
        elif sy == "x":
            out.append("\\*")
        else:
            out.append(sy)
    return "".join(out)


TOK = re.compile(r"\\\*|[a-z]+|[ \n]+|\*|_|.", re.S)


def symbols(text: str):
    """tokenise an output paragraph back to the symbols of the model; None if a foreign character occurs"""
    out = []
    for m in TOK.finditer(text):
        t = m.group(0)
        if t == "\\*":
            out.append("x")
        elif t[0].isalpha():
            out.append("w")
        elif t.isspace():
            out.append("s")
        elif t in "*_":
            out.append(t)
        else:
            return None
    return out


def canon(inl) -> list:
    """project.py inline list -> the canonical stream of Inline.tla (X(Flat(tree)))"""
    out = []
    for it in inl:
        k = it[0]
        if k == "t":
            sy = symbols(it[1])
            if sy is None:
                return None
            out += ["*" if s == "x" else s for s in sy]
        elif k == "Emphasis":
            sub = canon(it[1])
            if sub is None:
                return None
            out += ["E("] + sub + [")"]
        elif k == "StrongEmphasis":
            sub = canon(it[1])
            if sub is None:
                return None
            out += ["S("] + sub + [")"]
        else:
            return None
    return out


def read(text: str):
    """(marko stream, markdown-it stream) of the single paragraph 'qq <text> qq' with the guard words removed; None if not one paragraph"""
    res = []
    for parse in (project.parse_marko, project.parse_mdit):
        tree = parse(text)
        kids = tree[1]
        if len(kids) != 1 or kids[0][0] != "p":
            res.append(None)
            continue
        c = canon(kids[0][1])
        if c is None or c[:2] != ["w", "s"] or c[-2:] != ["s", "w"]:
            res.append(None)
            continue
        res.append(c[2:-2])
    return res


def _observe(job):
    from flowmark import reformat_text
    tid, src = job
    text = "qq " + concretise(src) + " qq\n"
    try:
        out = reformat_text(text, width=0)
        out2 = reformat_text(out, width=0)
    except BaseException as e:  # noqa: BLE001
        return dict(id=tid, src=src, text=text, exc=repr(e))
    a1, b1 = read(text)
    a2, b2 = read(out)

    def body(o):
        sy = symbols(o.rstrip("\n"))
        return sy[2:-2] if sy and sy[:2] == ["w", "s"] and sy[-2:] == ["s", "w"] else None
    return dict(id=tid, src=src, text=text, outtext=out, m1=a1, i1=b1, m2=a2, i2=b2, out=body(out), out2=body(out2))


def collect(max_len: int, syms=SYMS, marker="star"):
    """-> dict(model=TlcResult, items=[(obs, report)], discarded=..)"""
    consts = dict(MaxLen=max_len, Syms=set(syms), Marker=marker, DoDump=True)
    res = tlc.run_tlc("Inline", tlc.cfg_text(constants=consts, invariants=["Dump"]), coverage=True, timeout=3000)
    for act in ("Read1", "Render", "Read2"):
        if res.coverage.get(act, (0, 0))[0] == 0:
            raise tlc.TlcError(f"vacuous model: action {act} never taken")
    srcs = sorted((r[1] for r in res.reports if r and r[0] == "I"), key=json.dumps)
    model_bad = sum(1 for r in res.reports if r and r[0] == "I" and not r[5])
    obs = pmap(_observe, list(enumerate(srcs, 1)), chunksize=200)
    traces, keep, disc, errors = [], {}, dict(parsers_disagree=0, not_one_paragraph=0, foreign_output=0), []
    for o in obs:
        if "exc" in o:
            errors.append(o)
            continue
        if o["m1"] is None or o["i1"] is None:
            disc["not_one_paragraph"] += 1
            continue
        if o["m1"] != o["i1"]:
            disc["parsers_disagree"] += 1         # the two independent readers disagree on the *source*: no reference reading
            continue
        if o["out"] is None or o["out2"] is None:
            disc["foreign_output"] += 1
            continue
        # after formatting: a reader that does not see one paragraph sees a different document
        t2m = o["m2"] if o["m2"] is not None else ["<not a paragraph>"]
        t2i = o["i2"] if o["i2"] is not None else ["<not a paragraph>"]
        o["t2_marko"], o["t2_mdit"] = t2m, t2i
        traces.append(dict(id=o["id"], src=o["src"], t1=o["m1"], out=o["out"], t2m=t2m, t2i=t2i, out2=o["out2"]))
        keep[o["id"]] = o
    reports, gen, dist = tlc.validate_traces("InlineTrace", traces, cfg=tlc.cfg_text(spec="TraceSpec", constants=dict(consts, DoDump=False),
                                                                                   invariants=["TraceReport"]), timeout=3000)
    return dict(model=res, model_sources=len(srcs), model_roundtrip_failures=model_bad, items=[(keep[t["id"]], reports[t["id"]]) for t in traces],
                discarded=disc, errors=errors, generated=gen, distinct=dist, ntraces=len(traces))


def judge(chk, tier: str, prop: str) -> None:
    """family I of C01 (prop='C01': same inline structure) and C02 (prop='C02': second pass changes nothing)"""
    n = 5 if tier == "quick" else 7
    d = collect(n)
    chk.add_tlc(d["model"])
    chk.states += d["distinct"]
    chk.transitions += d["generated"]
    chk.traces += d["ntraces"]
    chk.discarded += sum(d["discarded"].values())
    stats = dict(sources=d["model_sources"], machine_predicts_failure=d["model_roundtrip_failures"], ok=0, D46=0, output_ambiguous=0, discarded=d["discarded"])
    for e in d["errors"]:
        chk.evaluations += 1
        chk.violation("NoException", dict(fam="I", src=e["text"], exc=e["exc"]))
    for o, r in d["items"]:
        _, id_, acc_read, acc_render, acc_read2, same_m, same_i, idem, model_rt, acc_render2 = r
        chk.evaluations += 1
        if any(s in ("*", "_") for s in o["src"]):
            chk.nontriv(("I", "".join(o["src"])))
        m = dict(fam="I", src=o["text"], out=o["outtext"], read_in=o["m1"], read_out_marko=o["t2_marko"], read_out_mdit=o["t2_mdit"], opts=dict(width=0))
        if not (acc_read and acc_render):
            chk.drift_note(dict(m, why="reader / renderer machine of Inline.tla disagrees with the parsers / the renderer",
                                acc_read=acc_read, acc_render=acc_render))
        failed = not (same_m and same_i) if prop == "C01" else not idem
        if not failed:
            stats["ok"] += 1
            continue
        if prop == "C01" and (same_m or same_i) and o["t2_marko"] != o["t2_mdit"]:
            stats["output_ambiguous"] += 1      # the two independent readers disagree on the output and one of them sees the same document
            chk.discarded += 1
            continue
        # D46: the machine, which emits exactly this output, predicts that the structure is not read back
        if "D46" in chk.open_findings and acc_read and acc_render and not model_rt:
            chk.known_finding("D46", m)
            stats["D46"] += 1
        else:
            chk.violation("SameDocument(inline)" if prop == "C01" else "Idempotent(inline)", m)
    chk.notes["family_I"] = stats
