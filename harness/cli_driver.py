"""Harness-side CLI driver used only to provoke a *formatting* failure (no repo change): makes
reformat_text raise for inputs that contain the marker given in VERIF_RAISE_MARK, then runs flowmark.cli.main."""
import os
import sys

import flowmark.reformat_api as api

_mark = os.environ.get("VERIF_RAISE_MARK")
_orig = api.reformat_text


def _patched(text, *a, **k):
    if _mark and _mark in text:
        raise RuntimeError("injected formatting failure")
    return _orig(text, *a, **k)


api.reformat_text = _patched
from flowmark.cli import main  # noqa: E402

sys.exit(main(sys.argv[1:]))
