"""Line-end family: spec/LineEnds.tla (reader -> renderer -> wrapper, per line end) replayed into reformat_text and validated by
spec/LineEndsTrace.tla.  Used by C01 (hard breaks kept, none invented; same document), C02 (second pass equal) and C04 (literal constructs
verbatim up to whitespace; finding D64 carved out by its trigger)."""
from __future__ import annotations

import json
import re

from harness import project, tlc
from harness.par import pmap

E = {"sp1": " \n", "sp2": "  \n", "bs": "\\\n", "nl": "\n"}
SEP = {"s": " ", "nl": "\n", "sp2": "  \n", "bs": "\\\n"}
# (start, end) of every construct kind around its inner line end; {j} makes every item of a paragraph unique
KIND = {
    "html": ('<span title="a{j}', 'b{j}">'), "hcom": ("<!-- a{j}", "b{j} -->"), "title": ('[t{j}](http://e.com/{j} "a{j}', 'b{j}")'),
    "ititle": ('![i{j}](x{j}.png "a{j}', 'b{j}")'), "code": ("`a{j}", "b{j}`"), "ltext": ("[a{j}", "b{j}](http://e.com/{j})"),
    "tag": ("{{% t{j} a{j}", "b{j} %}}"), "jcom": ("{{# a{j}", "b{j} #}}"), "var": ("{{{{ a{j}", "b{j} }}}}"),
}
ALL_KINDS = set(KIND)
OPTS = [dict(width=88, semantic=False, cleanups=False), dict(width=0, semantic=True, cleanups=False), dict(width=30, semantic=False, cleanups=False)]


def pieces(para):
    """[(start, end) of item j] in order; a word is (w, w)"""
    out = []
    for j, it in enumerate(para["items"], 1):
        if it["k"] == "w":
            out.append((f"word{j}", f"word{j}"))
        else:
            s, e = KIND[it["k"]]
            out.append((s.format(j=j), e.format(j=j)))
    return out


MANY = ["  ", "    ", "   ", "     "]        # "two spaces" stands for two OR MORE: the run rotates with the position in the paragraph


def source(para) -> str:
    text = "Lead"
    n = len(para["items"])
    for j, (it, sep, (s, e)) in enumerate(zip(para["items"], para["seps"], pieces(para)), 1):
        sp = MANY[(j + n) % 4] + "\n" if sep == "sp2" else SEP[sep]
        inner = MANY[(j + n + 1) % 4] + "\n" if it["e"] == "sp2" else E.get(it["e"], "")
        text += sp + (s if it["k"] == "w" else s + inner + e)
    return text + " end\n"


def _find(out: str, piece: str, pos: int):
    """position (start, end) of `piece` in out at or after pos; a space of the piece may have become any whitespace (a wrapped line)"""
    m = re.compile(r"\s+".join(re.escape(x) for x in piece.split(" "))).search(out, pos)
    return (m.start(), m.end()) if m else None


def observe_ends(para, out: str):
    """[hard, nbs] per line end of the source, in reading order (separator of item j, then its inner end); None if an item is not found"""
    res = []
    pos = out.find("Lead")
    if pos < 0:
        return None
    pos += 4
    for it, (s, e) in zip(para["items"], pieces(para)):
        a = _find(out, s, pos)
        if a is None:
            return None
        j1 = out[pos:a[0]]
        res.append(dict(hard=bool(re.search(r"\\\n", j1)), nbs=j1.count("\\")))
        pos = a[1]
        if it["k"] != "w":
            b = _find(out, e, pos)
            if b is None:
                return None
            j2 = out[pos:b[0]]
            res.append(dict(hard=bool(re.search(r"\\\n", j2)), nbs=j2.count("\\")))
            pos = b[1]
    return res


def _observe(job):
    from flowmark import reformat_text
    from harness.props.c04 import lit_seq
    tid, para, opts = job
    x = source(para)
    try:
        o1 = reformat_text(x, **opts)
        o2 = reformat_text(o1, **opts)
        fm = project.flat(project.parse_marko(x)), project.flat(project.parse_marko(o1))
        d22 = False
        if fm[0] != fm[1]:
            # finding D22: a single authored space between a tag close and a tag open is removed. Counterfactual: the source without those spaces
            # (any subset of them: where the wrapper breaks the line between two tags the space survives as the newline)
            import itertools
            spots = [mm.start(1) + len(mm.group(1)) for mm in re.finditer(r"(-->|%\}|#\}|\}\}) (?=<!--|\{%|\{#|\{\{)", x)]
            for r_ in range(1, len(spots) + 1):
                for sub in itertools.combinations(spots, r_):
                    x2 = "".join(ch for k_, ch in enumerate(x) if k_ not in sub)
                    if project.flat(project.parse_marko(x2)) == fm[1]:
                        d22 = True
                        break
                if d22:
                    break
        return dict(id=tid, src=x, out=o1, obs=observe_ends(para, o1), same_m=fm[0] == fm[1], lit_same=lit_seq(x) == lit_seq(o1), idem=o1 == o2, d22=d22)
    except BaseException as e:  # noqa: BLE001
        return dict(id=tid, src=x, exc=repr(e))


def consts_of(tier: str) -> dict:
    if tier == "quick":
        return dict(MaxItems=2, Kinds=ALL_KINDS, TrimRaw=True, TagAware=False)
    return dict(MaxItems=3, Kinds={"html", "title", "code", "ltext", "tag"}, TrimRaw=True, TagAware=False)


def collect(tier: str, shard: int = 0):
    consts = consts_of(tier)
    res = tlc.run_tlc("LineEnds", tlc.cfg_text(constants=dict(consts, DoDump=True), invariants=["BreaksKept", "VerbatimK", "RepairSound", "Dump"], deadlock=False),
                      coverage=True, timeout=3000)
    for act in ("Parse", "Render", "Wrap"):
        if res.coverage.get(act, (0, 0))[0] == 0:
            raise tlc.TlcError(f"vacuous model: action {act} never taken")
    # teeth: the tree before fix D63 (raw trailing spaces reach the wrapper) must violate VerbatimK
    try:
        tlc.run_tlc("LineEnds", tlc.cfg_text(constants=dict(consts, MaxItems=1, TrimRaw=False, DoDump=False), invariants=["VerbatimK"], deadlock=False), workers=2)
        raise tlc.TlcError("model sanity: TrimRaw=FALSE does not violate VerbatimK")
    except tlc.TlcViolation:
        pass
    paras = sorted((r[1] for r in res.reports if r and r[0] == "E"), key=json.dumps)
    if tier == "thorough":
        # the 5-kind, 3-item space of the thorough model, plus every 2-item paragraph over all kinds
        res2 = tlc.run_tlc("LineEnds", tlc.cfg_text(constants=dict(consts_of("quick"), DoDump=True), invariants=["BreaksKept", "VerbatimK", "Dump"], deadlock=False), timeout=3000)
        paras += sorted((r[1] for r in res2.reports if r and r[0] == "E"), key=json.dumps)
    # option set and shard must not be derived from the same residue of the index
    jobs = [(k + 1, p, OPTS[(k // 3) % len(OPTS)]) for k, p in enumerate(paras)]
    if tier == "quick":
        jobs = [j for j in jobs if j[0] % 3 == shard]
    obs = pmap(_observe, jobs, chunksize=200)
    traces, keep, errors, unlocated = [], {}, [], 0
    for job, o in zip(jobs, obs):
        if "exc" in o:
            errors.append(dict(o, opts=job[2]))
            continue
        if o["obs"] is None:
            unlocated += 1
            o["obs"] = []
        traces.append(dict(id=o["id"], para=job[1], obs=o["obs"], same_m=o["same_m"], lit_same=o["lit_same"], idem=o["idem"]))
        keep[o["id"]] = dict(o, para=job[1], opts=job[2])
    tconsts = dict(consts_of("quick"), MaxItems=3, DoDump=False)
    reports, gen, dist = tlc.validate_traces("LineEndsTrace", traces, cfg=tlc.cfg_text(spec="TraceSpec", constants=tconsts, invariants=["TraceReport"], deadlock=False),
                                             timeout=3000)
    return dict(model=res, paras=len(paras), items=[(keep[t["id"]], reports[t["id"]]) for t in traces], errors=errors, unlocated=unlocated,
                generated=gen, distinct=dist, ntraces=len(traces))


def judge(chk, tier: str, prop: str) -> None:
    d = collect(tier, {"C01": 0, "C02": 1, "C04": 2}[prop])
    chk.add_tlc(d["model"])
    chk.states += d["distinct"]
    chk.transitions += d["generated"]
    chk.traces += d["ntraces"]
    stats = dict(paragraphs=d["paras"], judged=d["ntraces"], failing=0, unlocated=d["unlocated"], d64=0)
    for e in d["errors"]:
        chk.evaluations += 1
        chk.violation("NoException", dict(fam="lineends", src=e["src"], opts=e["opts"], exc=e["exc"]))
    for o, r in d["items"]:
        _, id_, acc, breaks, verb, verbk, has64, same_m, lit_same, idem = r
        chk.evaluations += 1
        chk.nontriv(("lineends", json.dumps(o["para"], sort_keys=True)))
        m = dict(fam="lineends", para=o["para"], src=o["src"], opts=o["opts"], out=o["out"], observed=o["obs"])
        if prop == "C01":
            fails = [n for n, v in (("HardBreaksKept", breaks), ("SameDocument(marko)", same_m)) if not v]
            if fails == ["SameDocument(marko)"] and o.get("d22") and "D22" in chk.open_findings:
                chk.known_finding("D22", {k: m[k] for k in ("src", "opts", "out")})
                stats["d22"] = stats.get("d22", 0) + 1
                fails = []
        elif prop == "C02":
            fails = [] if idem else ["Idempotent"]
        else:
            fails = []
            if not verbk:
                fails.append("Verbatim")
            if not lit_same and not (has64 and verbk and not verb):
                fails.append("SameLiterals")
            if has64 and verbk and not verb and "D64" not in chk.open_findings:
                fails.append("Verbatim")
            if not fails and has64 and not verb:
                chk.known_finding("D64", {k: m[k] for k in ("src", "opts", "out")})
                stats["d64"] += 1
        if fails:
            stats["failing"] += 1
            chk.violation("+".join(fails) + "(lineends)", m)
        elif not acc:
            chk.drift_note(dict(m, why="line ends differ from LineEnds.tla"))
    chk.notes["family_lineends"] = stats
