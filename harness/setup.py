"""./check setup — offline build step: parse every TLA+ module with SANY, run a small TLC smoke test,
report tool presence. Nothing is cached between runs; checks rebuild from /repo's working tree."""
from __future__ import annotations

import shutil
import subprocess
import sys

from harness import tlc
from harness.core import PY, REPO


def run() -> int:
    ok = True
    mods = sorted(p.stem for p in tlc.SPEC_DIR.glob("*.tla"))
    for m in mods:
        try:
            tlc.sany(m)
            print(f"sany ok   {m}")
        except tlc.TlcError as e:
            ok = False
            print(f"sany FAIL {m}: {e}", file=sys.stderr)
    try:
        r = tlc.run_tlc("Wrap", tlc.cfg_text(constants=dict(MaxWords=2, Lens={1, 2}, Kinds=set(), Widths={3}, Offs={0},
                                                             Mds={False}, DoDump=False), invariants=["Lossless"]),
                        timeout=120)
        print(f"tlc smoke ok: {r.distinct} states")
    except tlc.TlcError as e:
        ok = False
        print(f"tlc smoke FAIL: {e}", file=sys.stderr)
    for tool in ("strace", "git", "java"):
        print(f"tool {tool}: {shutil.which(tool)}")
    p = subprocess.run([PY, "-c", "import flowmark, marko, markdown_it; print(flowmark.__file__)"],
                       capture_output=True, text=True, env={"PYTHONPATH": f"{REPO}/src"})
    print("flowmark import:", p.stdout.strip() or p.stderr.strip()[-300:])
    return 0 if ok else 2
