"""Shared pipeline for the sentence wrapper (used by C11 and, for the width/lossless clauses, by C05):
TLC enumerates spec/SentenceWrap.tla, every behaviour is replayed into the real line_wrap_by_sentence
(whole paragraph and every sentence-prefix = the machine's state after each action), single-sentence edits
give pair observations, an end-to-end family goes through reformat_text(semantic=True) inside containers,
and spec/SentenceTrace.tla validates everything in batch."""
from __future__ import annotations

import json
from itertools import product

from harness import tlc, vocab
from harness.par import pmap

TIERS = {
    "quick": dict(MaxWords=4, Lens={1, 3, 4}, Kinds={"h"}, Widths={0, 6, 8, 10}, MinLens={5}, Indents={0, 2},
                  Mds={False, True}, DoDiff=True),
    "thorough": dict(MaxWords=5, Lens={1, 3, 4}, Kinds={"h", "n"}, Widths={0, 6, 8, 10, 12}, MinLens={4, 6},
                     Indents={0, 2, 3}, Mds={False, True}, DoDiff=True),
}
MODEL_INVS = ["Lossless", "MachineIsRunAll", "BoundedK", "P1K", "P2", "DiffLocal", "Dump"]
TRACE_CFG = tlc.cfg_text(spec="TraceSpec", constants=dict(MaxWords=0, Lens={1}, Kinds=set(), Widths={1}, MinLens={1},
                                                          Indents={0}, Mds={True}, DoDump=False, DoDiff=False),
                         invariants=["Report"])


def sentences(words):
    out, cur = [], []
    for j, w in enumerate(words):
        cur.append(j)
        if w["k"] == "s":
            out.append(cur)
            cur = []
    if cur:
        out.append(cur)
    return out


def edits(words, lens):
    """Mirror of Edits(ws) in SentenceWrap.tla (only for paragraphs of p/s words)."""
    if any(w["k"] not in "ps" for w in words):
        return []
    sents = sentences(words)
    res = []
    for q, idxs in enumerate(sents, 1):
        for i in idxs:
            for n in lens:
                if n != words[i]["n"] and (words[i]["k"] != "s" or n >= 3):
                    ws = [dict(w) for w in words]
                    ws[i]["n"] = n
                    res.append((ws, q))
        for n in lens:
            ws = [dict(w) for w in words]
            ws.insert(idxs[0], {"k": "p", "n": n})
            res.append((ws, q))
    return res


def _call(words, width, minlen, ii, si, md):
    from flowmark.linewrapping.line_wrappers import line_wrap_by_sentence
    toks = vocab.concretise(words, positional=False)
    lw = line_wrap_by_sentence(width=width, min_line_len=minlen, is_markdown=md)
    r = lw(" ".join(toks), " " * ii, " " * si)
    a = vocab.abstract_lines(toks, r.split("\n") if r else [], " " * ii, " " * si, True)
    a["raw"] = r
    return a


def _observe(case):
    cid, words, width, minlen, ii, si, md, lens, with_pairs = case
    try:
        a = _call(words, width, minlen, ii, si, md)
        steps = []
        if width > 0:
            for sidx in sentences(words):
                pre = words[: sidx[-1] + 1]
                steps.append(_call(pre, width, minlen, ii, si, md)["out"])
        pairs = []
        if with_pairs and width > 0:
            for ws2, q in edits(words, lens):
                b = _call(ws2, width, minlen, ii, si, md)
                pairs.append((ws2, q, b))
        return cid, a, steps, pairs, None
    except Exception as e:
        return cid, None, None, None, repr(e)


E2E_CONTAINERS = [("top", "", "", ""), ("bullet", "- ", "- ", "  "), ("quote", "> ", "> ", "> "),
                  ("ordered", "1. ", "1. ", "   "), ("quote>bullet", "> - ", "> - ", ">   ")]


def _observe_e2e(case):
    from flowmark import reformat_text
    cid, cname, src_first, ii, si, words, width = case
    toks = vocab.concretise(words, positional=False)
    try:
        r = reformat_text(src_first + " ".join(toks) + "\n", width=width, semantic=True, cleanups=False)
    except Exception as e:
        return cid, None, repr(e)
    lines = r.split("\n")
    if lines and lines[-1] == "":
        lines.pop()
    a = vocab.abstract_lines(toks, lines, ii, si, True)
    a["raw"] = r
    return cid, a, None


def collect(tier: str, seed: int = 0, consts: dict | None = None, pairs: bool = True, on_item=None):
    """Returns dict(items=[(meta, report, trace)], states, transitions, traces, errors=[...]).
    With on_item (a callback taking meta, report, trace) nothing is kept: the model is explored one width at a time (thorough) and the
    observations are validated and handed over in chunks, so that the memory stays bounded (the thorough tier needed 14 GB at once, and the
    forked observation workers inherited it)."""
    consts = dict(consts or TIERS[tier], DoDump=True)
    allw = sorted(consts["Widths"])
    groups = [set(allw)] if (on_item is None or tier == "quick") else [{w} for w in allw]
    lens = sorted(consts["Lens"])
    items, errors = [], []
    tot = dict(states=0, transitions=0, traces=0, behaviours=0)
    taken = {}
    tid = 0
    cid0 = 0
    CH = 60000

    def flush(traces, meta):
        if not traces:
            return
        reports, gen, dist = tlc.validate_traces("SentenceTrace", traces, cfg=TRACE_CFG, timeout=3000)
        tot["states"] += dist
        tot["transitions"] += gen
        tot["traces"] += len(traces)
        for t in traces:
            if on_item is None:
                items.append((meta[t["id"]], reports[t["id"]], t))
            else:
                on_item(meta[t["id"]], reports[t["id"]], t)

    for ws in groups:
        res = tlc.run_tlc("SentenceWrap", tlc.cfg_text(constants=dict(consts, Widths=ws), invariants=MODEL_INVS), coverage=True, timeout=3000)
        for act in ("Sentence", "Finish", "NoWrap"):
            taken[act] = taken.get(act, 0) + res.coverage.get(act, (0, 0))[0]
        tot["states"] += res.distinct
        tot["transitions"] += res.generated
        beh = sorted((r for r in res.reports if r and r[0] == "B"), key=json.dumps)
        del res
        tot["behaviours"] += len(beh)
        # pairs multiply the work: take them for every behaviour of <= 3 words and a stride of the rest
        cases = []
        for k, b in enumerate(beh):
            cid = cid0 + k
            _, words, width, minlen, ii, si, md, mlines = b
            with_pairs = pairs and (not md) and (len(words) <= 3 or cid % (7 if tier == "quick" else 4) == 0)
            cases.append((cid, words, width, minlen, ii, si, md, lens, with_pairs))
        del beh
        # negative widths cannot be written in a TLC cfg file: width-0 behaviours are also observed at width -1
        cases += [(cid0 + len(cases) + k, c[1], -1, c[3], c[4], c[5], c[6], c[7], False) for k, c in enumerate([c for c in cases if c[2] == 0])]
        cid0 += len(cases)
        for lo in range(0, len(cases), CH):
            part = cases[lo: lo + CH]
            traces, meta = [], {}
            for case, (cid, a, steps, prs, exc) in zip(part, pmap(_observe, part)):
                _, words, width, minlen, ii, si, md, _, _ = case
                base = dict(fn="line_wrap_by_sentence", text=" ".join(vocab.concretise(words, positional=False)), width=width,
                            minlen=minlen, ii=ii, si=si, md=md)
                if exc:
                    errors.append(dict(base, exc=exc))
                    continue
                tid += 1
                traces.append(dict(id=tid, kind="single", words=words, width=width, minlen=minlen, ii=ii, si=si, md=md,
                                   ok=a["ok"], out=a["out"], steps=steps, ind=a["ind"]))
                meta[tid] = dict(base, kind="single", output=a["raw"], ind=a["ind"], nlines=len(a["out"]))
                for ws2, q, b in prs:
                    tid += 1
                    traces.append(dict(id=tid, kind="pair", words=words, width=width, minlen=minlen, ii=ii, si=si, md=md,
                                       ok=a["ok"], out=a["out"], steps=[], ind=a["ind"], words2=ws2, ok2=b["ok"], out2=b["out"], j=q))
                    meta[tid] = dict(base, kind="pair", output=a["raw"], text2=" ".join(vocab.concretise(ws2, positional=False)),
                                     output2=b["raw"], edited_sentence=q, ind=a["ind"], nlines=len(a["out"]))
            flush(traces, meta)
        del cases
    for act in ("Sentence", "Finish", "NoWrap"):
        if taken.get(act, 0) == 0:
            raise tlc.TlcError(f"vacuous model: action {act} never taken")
    traces, meta = [], {}
    # end-to-end family with the default min_line_len = 20
    wordset = [{"k": "p", "n": 4}, {"k": "p", "n": 9}, {"k": "s", "n": 5}, {"k": "s", "n": 10}]
    maxw = 4 if tier == "quick" else 5
    e2e = []
    n = 0
    for m in range(2, maxw + 1):
        for ws in product(wordset, repeat=m):
            for width in ((26, 34) if tier == "quick" else (22, 26, 30, 34, 44)):
                cname, src_first, ii, si = E2E_CONTAINERS[n % len(E2E_CONTAINERS)]
                e2e.append((n, cname, src_first, ii, si, [dict(w) for w in ws], width))
                n += 1
    # wide family: a short sentence-final line followed by a sentence that has to wrap, at widths around and above the default 88
    long_words = [{"k": "p", "n": 9}] * 13
    for k2, (head, width) in enumerate(product(([{"k": "s", "n": 6}], [{"k": "p", "n": 4}, {"k": "s", "n": 7}], [{"k": "s", "n": 10}, {"k": "s", "n": 5}]),
                                        (60, 88, 100, 120))):
        cname, src_first, ii, si = E2E_CONTAINERS[k2 % len(E2E_CONTAINERS)]
        e2e.append((n + k2, cname, src_first, ii, si, [dict(w) for w in head] + [dict(w) for w in long_words] + [{"k": "s", "n": 6}, {"k": "p", "n": 4}], width))
    for case, (cid, a, exc) in zip(e2e, pmap(_observe_e2e, e2e)):
        _, cname, src_first, ii, si, words, width = case
        base = dict(fn=f"reformat_text(semantic)[{cname}]", text=src_first + " ".join(vocab.concretise(words, positional=False)),
                    width=width, minlen=20, ii=len(ii), si=len(si), md=True)
        if exc:
            errors.append(dict(base, exc=exc))
            continue
        tid += 1
        traces.append(dict(id=tid, kind="single", words=words, width=width, minlen=20, ii=len(ii), si=len(si), md=True,
                           ok=a["ok"], out=a["out"], steps=[], ind=a["ind"]))
        meta[tid] = dict(base, kind="single", output=a["raw"], ind=a["ind"], nlines=len(a["out"]), e2e=True)
    flush(traces, meta)
    return dict(items=items, states=tot["states"], transitions=tot["transitions"], traces=tot["traces"], errors=errors,
                behaviours=tot["behaviours"], consts=consts)


def split_report(rep):
    """-> dict of clause results of one SentenceTrace report."""
    _, tid, acc, lossless, bl, p1, p2, t14, t13, oneline, esc_only, nohaz, pair = rep
    return dict(acc=acc, lossless=lossless, bounded=bl, p1=p1, p2=p2, t14=t14, t13=t13, oneline=oneline,
                esc_only=esc_only, nohaz=nohaz, local=pair[0], acc2=pair[1])
