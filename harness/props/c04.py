"""C04 — code, tags, URLs and other non-prose spans are reproduced verbatim.

Leg A: TLC explores spec/Code.tla: every code block (fence character and length or indented, info string shape, content
       lines over 13 kinds incl. blank lines, prefix look-alikes and fence look-alikes of either character) under 6 container
       paths, rendered by the machine of _render_code / _min_fence_length; ContentVerbatim(K), BlankNoTrailing,
       FenceAdequate, FenceKept in every state; every behaviour is dumped.
Leg B: each block is concretised inside its container path, formatted by the real reformat_text under typography options, the
       output block is abstracted back to line records; a second family embeds every kind of inline non-prose span (code spans
       with backticks / spaces / quotes / dots, template tags, comments, inline HTML, autolinks, bare URLs, links and images
       with destinations and titles, reference and footnote labels) at every position of a wrapping paragraph.
Leg C: spec/CodeTrace.tla validates each block observation against the machine (drift) and evaluates the property
       predicates on the observation; spec/LitTrace (sequence equality in DocTrace style) decides that the ordered literal
       spans read by the real parser (and by a tag/comment scanner on the raw text) are the same for input and output."""
from __future__ import annotations

import json
import re

from harness import project, tlc
from harness.core import Check
from harness.par import pmap

KINDS = {"plain", "blank", "ind", "q", "b", "t3", "t4", "t5", "w3", "w4", "t3x", "s3", "sw3", "s3i"}
CONC = {"plain": 'wait... x = "str" # it\'s', "blank": "", "ind": "    indented", "q": "> not a quote", "b": "- not an item", "t3": "```",
        "t4": "````", "t5": "`````", "w3": "~~~", "w4": "~~~~", "t3x": "```py", "s3": "  ```", "sw3": " ~~~", "s3i": " ```"}
BACK = {v: k for k, v in CONC.items()}
PATHS = {"top": ("", ""), "bullet": ("- ", "  "), "quote": ("> ", "> "), "bullet>quote": ("- > ", "  > "), "quote>bullet": ("> - ", ">   "),
         "footnote": ("[^1]: ", "    ")}
MARK = {"> ": "Q", "- ": "B", "  ": "I", "    ": "F"}
TRIM = False         # Code.tla constant TrimTrailingBlank: the code drops trailing blank lines of a code block (finding D26)
TAG_RE = re.compile(r"\{%.*?%\}|\{#.*?#\}|\{\{.*?\}\}|<!--.*?-->", re.S)


def conc_block(blk, path, findent=0):
    """findent: the whole fenced block (fences and content) is written 0-3 spaces to the right, which CommonMark removes again"""
    first, cont = PATHS[path]
    # the rest of an info string is free text: a backtick fence's may hold tildes, a tilde fence's may hold tildes and backticks
    info = {"none": "", "lang": "python", "lang+extra": "python {.numberLines} ~/x" + (" `y`" if blk["fc"] == "~" else "")}[blk["info"]]
    lines = []
    if blk["fl"] == 0:
        body = ["    " + CONC[k] if CONC[k] else "" for k in blk["lines"]]
        # an indented code block needs a blank line before it inside a paragraph context; here it starts the container
        lines = body
    else:
        f = blk["fc"] * blk["fl"]
        pad = " " * findent
        lines = [pad + f + info] + [(pad + CONC[k]) if CONC[k] else "" for k in blk["lines"]] + [pad + f]
    out = []
    for j, l in enumerate(lines):
        p = first if j == 0 else cont
        out.append((p + l) if l else p.rstrip())
    text = "\n".join(out) + "\n"
    if blk["fl"] == 0 or (findent and path == "top"):
        text = "intro\n\n" + text      # not a uniformly indented document (that would be dedented on purpose: docstring convenience)
    if path == "footnote":
        text = "ref[^1]\n\n" + text
    return text


def markers(prefix: str, path: str) -> list[str]:
    out, rest = [], prefix
    while rest:
        if path == "footnote" and (rest.startswith("    ") or rest.startswith("[^1]: ")):
            out.append("F")
            rest = rest[6:] if rest.startswith("[^1]: ") else rest[4:]
        elif rest.startswith("> "):
            out.append("Q")
            rest = rest[2:]
        elif rest == ">":
            out.append("Q")
            rest = ""
        elif rest.startswith("- "):
            out.append("B")
            rest = rest[2:]
        elif rest.startswith("  "):
            out.append("I")
            rest = rest[2:]
        else:
            out.append("?")
            break
    return out


def abs_block(output: str, path):
    """the first code block of the output -> line records [p, k, n, c, info] (the shape of Code.outl)"""
    first, cont = PATHS[path]
    recs, fence = [], None
    for l in output.split("\n"):
        if fence is None:
            if not l.startswith(first):
                continue
            m = re.match(r"^(`{3,}|~{3,})(.*)$", l[len(first):])
            if not m:
                continue
            fence = m.group(1)
            info = m.group(2).strip()
            recs.append(dict(p=markers(first, path), k="fence", n=len(fence), c=fence[0],
                             info="none" if not info else ("lang+extra" if " " in info else "lang")))
            continue
        if l.startswith(cont):
            pm, rest = markers(cont, path), l[len(cont):]
        elif l == cont.rstrip():
            pm, rest = markers(cont.rstrip(), path), ""
        else:
            pm, rest = ["?"], l
        if rest == fence:
            recs.append(dict(p=pm, k="fence", n=len(fence), c=fence[0], info=""))
            return recs
        recs.append(dict(p=pm, k=BACK.get(rest, "other"), n=0, c="", info=""))
    return recs


def depth_of(path):
    return 0


def code_lits(text):
    return [s for s in project.literals(project.parse_marko(text)) if s.startswith("code:")]


OPTS = [dict(width=88, semantic=False, cleanups=False), dict(width=20, semantic=True, cleanups=True, smartquotes=True, ellipses=True)]


def _observe_block(job):
    from flowmark import reformat_text
    idx, blk, path, oi = job[:4]
    x = conc_block(blk, path, job[4] if len(job) > 4 else 0)
    try:
        out = reformat_text(x, **OPTS[oi])
    except BaseException as e:  # noqa: BLE001
        return dict(exc=repr(e), src=x)
    try:
        lin, lout = code_lits(x), code_lits(out)
    except BaseException as e:  # noqa: BLE001
        return dict(exc=repr(e), src=x)
    return dict(src=x, out=out, obs=abs_block(out, path), lit_in=lin, lit_out=lout)


# ---------------- inline literal spans ----------------
INLINE = [
    ("code", "`code`"), ("code_bt", "`` a`b ``"), ("code_bt_edge", "`` `a` ``"), ("code_2sp", "`a  b`"), ("code_pad", "` x `"),
    ("code_quote", "`\"q\" it's...`"), ("code_long", "`a very long code span that cannot be broken anywhere at all`"),
    ("tag", "{% tag a=\"1\" b='2' %}"), ("jcomment", "{# comment... it's #}"), ("var", "{{ var|default(\"x\") }}"),
    ("hcomment", "<!-- c \"q\"... -->"), ("html_open", "<span class=\"x\" title='it''s'>"), ("html_close", "</span>"), ("html_self", "<br/>"),
    ("autolink", "<http://auto.link/a_b*c>"), ("url", "http://bare.example.com/a_b?c=d...&e=\"f\""),
    ("link", "[text](http://e.com/a_b \"Title... 'q'\")"), ("link_paren", "[t](http://e.com/a_(b))"), ("link_angle", "[t](<url with spaces> \"t\")"),
    ("image", "![img alt](x.png \"ti...\")"), ("ref", "[ref text][lab]"), ("fnref", "note[^fn]"), ("link_empty_title", "[t](u)"),
    ("code_in_link", "[`c`](http://x.y)"), ("escaped", "\\*not emph\\* \\\"q\\\""),
    ("link_text_is_label", "[lab](http://other.example/x \"O\")"), ("ref_text_is_label", "[lab][lab2]"),
    ("code_bt_start", "`` `tick ``"), ("code_bt_end", "`` tick` ``"), ("code_bt_both_sp", "``  `a`  ``"),
    ("www", "www.example.com/a_b?c=d"), ("www_cjk", "www.example.com/wiki/中文abc页面"), ("url_cjk", "https://example.com/中文abc页"), ("code_cjk", "`中文abc页`"), ("link_cjk", "[t](http://e.com/中文abc)"), ("bare_email", "joe.q@example.com"), ("bare_mailto", "mailto:joe.q@example.com"), ("bare_xmpp", "xmpp:joe@example.com/res"), ("email", "<joe.q@example.com>"), ("mailto", "<mailto:joe@example.com>"), ("link_escparen", "[t](http://e.com/a\\)b \"say \\\"hi\\\"\")"),
    # constructs that span two source lines, the first ending in two spaces / a backslash / one space: not a hard break inside a tag, comment or title
    ("html_ml_2sp", "<span  \nclass=\"a\">"), ("hcomment_ml_2sp", "<!-- c  \nd -->"), ("link_title_ml_2sp", "[t](http://e.com \"ti  \ntle\")"),
    ("image_title_ml_2sp", "![i](x.png \"ti  \ntle\")"), ("html_ml_bs", "<span title=\"C:\\tmp\\\nfiles\">"), ("hcomment_ml_bs", "<!-- path C:\\build\\\nout -->"), ("html_ml_1sp", "<span \nclass=\"a\">"), ("code_ml_2sp", "`co  \nde`"),
    # titles whose text itself begins and ends like a delimited title
    ("image_title_paren", "![fig](img.png \"(draft)\")"), ("image_title_sq", "![fig](img.png \"'quoted'\")"), ("image_title_dq", "![fig](img.png '\"Quoted\"')"),
    ("link_title_paren", "[t](http://e.com \"(a) and (b)\")"), ("link_title_sq", "[t](http://e.com \"'quoted'\")"),
    ("link_text_ml_2sp", "[li  \nnk](http://e.com)"), ("tag_ml_2sp", "{% tag a=\"1\"  \nb='2' %}"),
]
CONT = {"": "", "- ": "  ", "> ": "> "}
DEFS = "\n\n[lab]: http://ref.example.com/a_b \"Ref 'title'...\"\n[lab2]: http://second.example.com/\n\n[^fn]: The footnote text.\n"
WORDS = ["alpha", "beta", "gamma", "delta", "epsilon", "zeta"]


def inline_cases(tier):
    widths = (20, 88) if tier == "quick" else (12, 20, 40, 88)
    cases = []
    for name, span in INLINE:
        for pos in (0, 2, 5) if tier == "quick" else range(6):
            for w in widths:
                for typo in (False, True):
                    for sem in (False, True):
                        for prefix in ("", "- ", "> "):
                            if prefix == "> " and "\n" in span:
                                continue        # the source-side tag scan would take the quote marker of the second line for content
                            ws = WORDS[:pos] + [span] + WORDS[pos:]
                            cases.append((name, prefix + " ".join(ws).replace("\n", "\n" + CONT[prefix]) + "." + DEFS, dict(width=w, semantic=sem, cleanups=typo, smartquotes=typo, ellipses=typo)))
    # code spans whose content holds an inner backtick run and a block-looking word: every width around the wrap point
    for span in ("``a ` - b``", "`` x ` 1. y ``", "``c ` # d``", "```e `` > f```", "``g ` --- h``"):
        for pos in (2, 4):
            for w in range(8, 44, 1 if tier == "thorough" else 3):
                for sem in (False, True):
                    ws = WORDS[:pos] + [span] + WORDS[pos:]
                    cases.append(("code_inner_special", " ".join(ws) + ".\n", dict(width=w, semantic=sem, cleanups=False)))
    return cases


def lit_seq(text):
    lits = [s for s in project.literals(project.parse_marko(text))]
    tags = ["tag:" + re.sub(r"\s+", " ", m.group(0)) for m in TAG_RE.finditer(text)]
    return lits + tags


def _observe_inline(job):
    from flowmark import reformat_text
    name, x, opts = job
    try:
        out = reformat_text(x, **opts)
        return dict(out=out, a=lit_seq(x), b=lit_seq(out))
    except BaseException as e:  # noqa: BLE001
        return dict(exc=repr(e))


def run(tier: str) -> int:
    chk = Check("C04", tier, "model_checking")
    n = 2 if tier == "quick" else 3
    chk.rule = (f"code blocks: every block of spec/Code.tla with <= {n} content lines over 13 kinds x fence ` / ~ x length 3/4 or indented x 3 info shapes x 6 "
                f"container paths x 2 option sets; inline spans: {len(INLINE)} non-prose constructs at several positions of a wrapping paragraph x widths x "
                "typography on/off x wrap mode x 3 containers; non-trivial = block with at least one special content line / inline case whose output differs from the input")
    chk.assumptions = ["literal spans are extracted by the same extractor (real marko parse + tag/comment regex) from input and output"]
    consts = dict(MaxLines=n, Kinds=KINDS, Paths=set(PATHS), TrimTrailingBlank=TRIM)
    res = tlc.run_tlc("Code", tlc.cfg_text(constants=dict(consts, DoDump=True),
                                           invariants=["ContentVerbatimK" if TRIM else "ContentVerbatim", "BlankNoTrailing", "FenceAdequate", "FenceKept", "Dump"]),
                      coverage=True, timeout=3000)
    chk.add_tlc(res)
    beh = sorted((r for r in res.reports if r and r[0] == "K"), key=json.dumps)
    chk.notes["model_blocks"] = len(beh)
    if tier == "quick":
        beh = [b for k, b in enumerate(beh) if (k + chk.seed) % 4 == 0 or any(x in ("t3", "t4", "t5", "w3", "w4", "s3", "sw3", "s3i") for x in b[1]["lines"])]
    # indented code blocks are only placed at the top level (after an intro paragraph)
    beh = [b for b in beh if b[1]["fl"] > 0 or b[2] == "top"]
    # a block with an "s3i" line exists only 3 spaces to the right (fenced) or as an indented block
    beh = [b for b in beh if not (b[1]["fl"] > 0 and "s3i" in b[1]["lines"] and b[2] not in ("top", "quote"))]      # after a list marker the extra spaces belong to the item
    jobs = [(i, b[1], b[2], i % 2) + ((3,) if b[1]["fl"] > 0 and "s3i" in b[1]["lines"] else ()) for i, b in enumerate(beh)]
    # fenced blocks written 3 (and 1) spaces to the right: the parser removes that indent from the content, so a fence look-alike
    # that was harmless at 4+ columns becomes a closing-fence candidate
    lookalike = ("t3", "t4", "t5", "w3", "w4", "s3", "sw3", "t3x")
    jobs += [(i, b[1], b[2], (i + fi) % 2, fi) for i, b in enumerate(beh) if b[1]["fl"] > 0 and b[2] in ("top", "quote") and "s3i" not in b[1]["lines"]
             for fi in ((3, 1) if any(x in lookalike for x in b[1]["lines"]) else (3,) if i % 3 == 0 else ())]
    traces, metas = [], {}
    tid = 0
    for (i, blk, path, oi, *_fi), o in zip(jobs, pmap(_observe_block, jobs, chunksize=100)):
        chk.evaluations += 1
        if "exc" in o:
            chk.violation("NoException", dict(src=o.get("src"), opts=OPTS[oi], exc=o["exc"]))
            continue
        tid += 1
        traces.append(dict(id=tid, blk=blk, path=path, obs=o["obs"], lit_same=(o["lit_in"] == o["lit_out"])))
        metas[tid] = dict(block=blk, path=path, src=o["src"], opts=OPTS[oi], out=o["out"], lit_in=o["lit_in"], lit_out=o["lit_out"])
        if any(k != "plain" for k in blk["lines"]):
            chk.nontriv(("blk", json.dumps(blk, sort_keys=True), path))
    reports, gen, dist = tlc.validate_traces("CodeTrace", traces, cfg=tlc.cfg_text(spec="TraceSpec", constants=dict(consts, DoDump=False),
                                                                                   invariants=["TraceReport"]), timeout=3000)
    chk.states += dist
    chk.transitions += gen
    chk.traces += len(traces)
    for t in traces:
        _, id_, acc, verb, verbk, blank_ok, fence_ok, prefix_ok, lit_same = reports[t["id"]]
        m = metas[id_]
        fails = [nm for nm, ok in (("ContentVerbatim", verb), ("BlankNoTrailing", blank_ok), ("FenceAdequate/Kept", fence_ok), ("Prefix", prefix_ok), ("SameLiterals", lit_same)) if not ok]
        if not fails:
            if not acc:
                chk.drift_note(m)
            continue
        trailing_blank = t["blk"]["lines"] and t["blk"]["lines"][-1] == "blank"
        if set(fails) <= {"ContentVerbatim", "SameLiterals"} and verbk and acc and trailing_blank and "D26" in chk.open_findings:
            chk.known_finding("D26", m)
            continue
        chk.violation("+".join(fails), m)
    # ---- inline spans ----
    icases = inline_cases(tier)
    ltr, lmeta = [], {}
    for tid2, (job, o) in enumerate(zip(icases, pmap(_observe_inline, icases, chunksize=50)), 1):
        chk.evaluations += 1
        if "exc" in o:
            chk.violation("NoException", dict(construct=job[0], src=job[1], opts=job[2], exc=o["exc"]))
            continue
        ltr.append(dict(id=tid2, fam="L", toks=[], lines=[], tm_in=o["a"], tm_out=o["b"], ti_in=[], ti_out=[], use_i=False, idem=True, first=[]))
        lmeta[tid2] = dict(construct=job[0], src=job[1], opts=job[2], out=o["out"])
        if o["out"] != job[1]:
            chk.nontriv(("inl", job[0], job[1][:40], json.dumps(job[2], sort_keys=True)))
    from harness import docs
    lrep, g2, d2 = tlc.validate_traces("DocTrace", ltr, cfg=docs.DOC_TRACE_CFG, timeout=3000)
    chk.states += d2
    chk.transitions += g2
    chk.traces += len(ltr)
    for t in ltr:
        dm = lrep[t["id"]][3]
        if dm:
            m = lmeta[t["id"]]
            info = dict(m, first_diff=dm, literal_in=t["tm_in"][dm - 1: dm + 1], literal_out=t["tm_out"][dm - 1: dm + 1])
            fid = {"code_bt_edge": "D3", "code_bt": "D3", "link_angle": "D24"}.get(m["construct"])
            # D64: a template tag that spans two lines, the first ending in two spaces: Markdown reads a hard break there and the renderer
            # spells it backslash + newline, inside the tag. Attributed only if the output literals are exactly the input literals with
            # that one rewrite applied to the tags (anything else that differs is reported)
            if fid is None and "D64" in chk.open_findings and re.search(r" {2,}\n", m["src"]):
                asis = [s_ for s_ in project.literals(project.parse_marko(m["src"]))] + \
                       ["tag:" + re.sub(r"\s+", " ", re.sub(r" {2,}\n", "\\\\\n", mm.group(0))) for mm in TAG_RE.finditer(m["src"])]
                if asis == t["tm_out"] and asis != t["tm_in"]:
                    fid = "D64"
            if fid and fid in chk.open_findings:
                chk.known_finding(fid, info)
            else:
                chk.violation("SameLiterals", info)
    for id_ in list(metas)[:: max(1, len(metas) // 3)][:3]:
        chk.sample({k: metas[id_][k] for k in ("block", "path", "src", "out")})
    for id_ in list(lmeta)[:: max(1, len(lmeta) // 2)][:2]:
        chk.sample(lmeta[id_])
    from harness import table
    table.judge(chk, tier, "C04")
    from harness import link
    link.judge(chk, tier, "C04")
    from harness import lineends
    lineends.judge(chk, tier, "C04")
    chk.exhaustive = tier == "thorough"
    chk.explanation = "Code.tla explored completely; thorough replays every block, quick a third plus every block with a fence look-alike"
    return chk.finish()


def replay(path: str) -> int:
    v = json.loads(open(path).read())
    print(json.dumps(v, indent=1))
    return 0
