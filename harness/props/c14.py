"""C14 — in-place formatting never leaves a damaged or half-written file.

Leg A: TLC explores spec/AtomicWrite.tla (protocol of reformat_files/reformat_file/atomic_output_file with a fault
       on every file-system operation and a crash before every operation) for every mode x backup x 1..2 files x
       every subset of undecodable files, checks TargetIntact / NoTouchWithoutInplace / FailureAtomic /
       PerFileAllOrNothing / Untouched in every state and exports every terminal fault/crash scenario.
Leg B: each scenario is replayed on the real CLI with strace syscall injection (error or SIGKILL at exactly the
       k-th invocation located by a dry run); the final file-system state is classified and compared with the
       model's prediction.
Leg C: the full system-call log of every run is validated by spec/FsTrace.tla: generic file-system semantics, the
       same invariants evaluated after EVERY event (each one is a crash point)."""
from __future__ import annotations

import glob
import json
import os
import shutil
import tempfile
from concurrent.futures import ThreadPoolExecutor

from harness import fstrace, tlc
from harness.core import Check, VERIF

OLD = ("# Title\n\n" + " ".join(f"word{i}" for i in range(60)) + "\n\n- item one is here and it is quite long indeed yes\n"
       "- item two\n")
BAD_DECODE = b"\xff\xfe\x00 not utf-8 \xc3\x28 at all\n" * 3
FMT_MARK = "RAISE-FORMAT-FAILURE-MARKER"
BAD_FORMAT = f"# doc\n\n{FMT_MARK} some text that the driver makes unformattable\n"
DRIVER = str(VERIF / "harness" / "cli_driver.py")
WIDTH = 40
ERRNO = {"read": ["EACCES", "EIO"], "open": ["EACCES", "ENOSPC"], "write": ["ENOSPC", "EIO"], "close": ["EIO", "ENOSPC"],
         "backup": ["EXDEV", "EACCES"], "replace": ["EXDEV", "EIO"], "dopen": ["EACCES"], "dwrite": ["ENOSPC"]}

CONFIGS = [("inplace", True, 1, True), ("inplace", False, 1, True), ("inplace", True, 2, True), ("inplace", False, 2, True),
           ("stdout", False, 1, True), ("stdout", False, 2, True), ("outfile", False, 1, True), ("outfile", False, 1, False)]
# target kinds for the in-place configurations: the named path is a regular file, a symbolic link to the file, or a file with a second
# hard link (the content read through the named path must stay intact whatever the implementation does with links)
LINK_CONFIGS = [("inplace", True, 1, True), ("inplace", False, 1, True), ("inplace", False, 2, True)]
INVS = ["TargetIntact", "NoTouchWithoutInplace", "FailureAtomic", "PerFileAllOrNothing", "Untouched", "Completed", "Dump"]


def model_cfg(mode, backup, nfiles, outexists, direct=False, dump=True):
    return tlc.cfg_text(constants=dict(NFiles=nfiles, Backup=backup, Mode=mode, Direct=direct, OutExists=outexists, DoDump=dump),
                        invariants=INVS, view="view")


STALE = b"STALE BACKUP OF AN EARLIER RUN\n"


def new_text(old: str) -> str:
    from flowmark import reformat_text
    return reformat_text(old, width=WIDTH, semantic=False, cleanups=False)


class Scenario:
    link = False
    stale = False      # a backup file <name>.orig of an EARLIER run exists (other content) before this run starts
    outarg = None      # stdout-mode scenarios with an explicit -o that names the input file itself ("same", "dot", "abs", "alias")

    def __init__(self, sid, mode, backup, nfiles, outexists, badv, status, hist, fs):
        self.sid, self.mode, self.backup, self.nfiles, self.outexists = sid, mode, backup, nfiles, outexists
        self.bad, self.status, self.hist, self.fs = badv, status, hist, fs
        last = hist[-1] if hist else ["", 0]
        self.kind, self.op, self.file = "none", None, None
        for pfx in ("FAULT:", "CRASHMID:", "CRASH:"):
            if last[0].startswith(pfx):
                self.kind, self.op, self.file = pfx[:-1].lower(), last[0][len(pfx):], last[1]
        self.errno = None
        self.badkind = "decode"

    def key(self):
        return dict(mode=self.mode, backup=self.backup, nfiles=self.nfiles, outexists=self.outexists, bad=self.bad,
                    kind=self.kind, op=self.op, file=self.file, errno=self.errno, badkind=self.badkind, link=self.link, outarg=self.outarg, stale=self.stale)


def materialise(sc: Scenario, new: str):
    d = tempfile.mkdtemp(prefix="c14-")
    root = os.path.realpath(d)
    olds = {}
    names = []
    for f in range(1, sc.nfiles + 1):
        name = f"f{f}.md" if sc.mode != "outfile" else "out.md"
        names.append(name)
        if sc.mode == "outfile":
            content = b"OLD OUTPUT FILE CONTENT\n"
            if sc.outexists:
                open(os.path.join(root, name), "wb").write(content)
        elif sc.bad[f - 1]:
            content = BAD_DECODE if sc.badkind == "decode" else BAD_FORMAT.encode()
            open(os.path.join(root, name), "wb").write(content)
        else:
            content = OLD.encode()
            if sc.link is True:
                os.makedirs(os.path.join(root, "real"), exist_ok=True)
                open(os.path.join(root, "real", name), "wb").write(content)
                os.symlink(os.path.join("real", name), os.path.join(root, name))
            else:
                open(os.path.join(root, name), "wb").write(content)
                if sc.link == "hard":
                    # the file has a second name (hard link) elsewhere: whatever the tool does about links, the named path stays intact
                    os.makedirs(os.path.join(root, "links"), exist_ok=True)
                    os.link(os.path.join(root, name), os.path.join(root, "links", name))
        olds[f] = content
        if sc.stale:
            open(os.path.join(root, name + ".orig"), "wb").write(STALE)
    argv = ["-w", str(WIDTH)]
    stdin = None
    if sc.mode == "inplace":
        argv += ["--inplace"] + ([] if sc.backup else ["--nobackup"]) + names
    elif sc.mode == "stdout":
        if sc.outarg:
            # no --inplace: whatever the tool makes of "-o <the input itself>", the input must keep its content
            spelled = {"same": names[0], "dot": "./" + names[0], "abs": os.path.join(root, names[0]), "alias": "alias.md"}[sc.outarg]
            if sc.outarg == "alias":
                os.symlink(names[0], os.path.join(root, "alias.md"))
            argv += ["-o", spelled]
        argv += names
    else:
        argv += ["-o", "out.md", "-"]
        stdin = OLD.encode()
    return root, names, olds, argv, stdin


def make_classifier(root, names):
    def classify(path):
        base = os.path.basename(path)
        if os.path.dirname(path) == os.path.join(root, "real") and base in names:
            return ("target", names.index(base) + 1)        # the file behind a symlinked target
        if os.path.dirname(path) != root:
            return ("other", 0)
        for i, n in enumerate(names, 1):
            if base == n:
                return ("target", i)
            if base == n + ".orig":
                return ("orig", i)
            if base.startswith(n) and base.endswith(".partial"):
                return ("tmp", i)
        return ("other", 0)
    return classify


def disk_state(root, names, olds, newb):
    def cls(path, f):
        if not os.path.exists(path):
            return "Absent"
        b = open(path, "rb").read()
        if b == olds[f]:
            return "Old"
        if b == newb:
            return "New"
        if b == STALE:
            return "Stale"
        return "Empty" if not b else "Partial"
    st = {"target": {}, "tmp": {}, "orig": {}}
    extra = []
    for f, n in enumerate(names, 1):
        st["target"][f] = cls(os.path.join(root, n), f)
        st["orig"][f] = cls(os.path.join(root, n + ".orig"), f)
        parts = glob.glob(os.path.join(root, glob.escape(n) + "*.partial"))
        st["tmp"][f] = cls(parts[0], f) if parts else "Absent"
    known = set(names) | {n + ".orig" for n in names}
    for e in os.listdir(root):
        if e not in known and not e.endswith(".partial") and e not in ("real", "alias.md", "links"):
            extra.append(e)
    return st, extra


def locate(events, op, f):
    """the dry-run event that corresponds to model operation `op` of file f"""
    for e in events:
        if op == "read" and e["op"] == "open" and e["r"] == "target" and e["f"] == f and not e["w"]:
            return e
        if op == "open" and e["op"] == "open" and e["r"] == "tmp" and e["f"] == f and e["w"]:
            return e
        if op == "write" and e["op"] == "write" and e["r"] == "tmp" and e["f"] == f:
            return e
        if op == "close" and e["op"] == "close" and e["r"] == "tmp" and e["f"] == f:
            return e
        if op == "backup" and e["op"] == "rename" and e["r"] == "target" and e["f"] == f and e["r2"] == "orig":
            return e
        if op == "replace" and e["op"] == "rename" and e["r"] == "tmp" and e["f"] == f and e["r2"] == "target":
            return e
    return None


def execute(sc: Scenario, newb: bytes):
    """Replay one scenario on the real CLI. Returns observation dict."""
    root, names, olds, argv, stdin = materialise(sc, newb.decode())
    try:
        classify = make_classifier(root, names)
        newlen = {f: len(newb) for f in range(1, sc.nfiles + 1)}
        driver = DRIVER if sc.badkind == "format" and any(sc.bad) else None
        env = {"VERIF_RAISE_MARK": FMT_MARK} if driver else None
        inject = None
        if sc.kind in ("fault", "crash"):
            dry_root, _, _, dargv, dstdin = materialise(sc, newb.decode())
            try:
                dry = fstrace.run_cli(dry_root, dargv, stdin=dstdin, driver=driver, env_extra=env)
                dev = fstrace.parse(dry.log_lines, dry_root, make_classifier(os.path.realpath(dry_root), names), newlen)
            finally:
                shutil.rmtree(dry_root, ignore_errors=True)
            e = locate(dev, sc.op, sc.file)
            if e is None:
                return dict(sc=sc, skipped=f"operation {sc.op}/{sc.file} not found in the dry run "
                                         f"(events: {[(x['op'], x['r'], x['f']) for x in dev]})")
            if sc.kind == "fault":
                inject = f"{e['sc']}:error={sc.errno}:when={e['k']}"
            else:
                inject = f"{e['sc']}:signal=KILL:when={e['k']}"
        elif sc.kind == "crashmid":
            return dict(sc=sc, skipped="mid-write crash cannot be produced with syscall injection (single write call)")
        run = fstrace.run_cli(root, argv, stdin=stdin, inject=inject, driver=driver, env_extra=env)
        ev = fstrace.parse(run.log_lines, root, classify, newlen)
        st, extra = disk_state(root, names, olds, newb)
        return dict(sc=sc, rc=run.rc, killed=run.killed, events=ev, disk=st, extra=extra, inject=inject,
                    stderr=run.stderr.decode(errors="replace")[-300:], stdout_len=len(run.stdout),
                    stdout_ok=(run.stdout == newb * sum(1 for b in sc.bad if not b)) if sc.mode == "stdout" and sc.kind == "none" and not any(sc.bad) else None)
    finally:
        shutil.rmtree(root, ignore_errors=True)


def dry_events(sc: Scenario, newb: bytes):
    root, names, olds, argv, stdin = materialise(sc, newb.decode())
    try:
        dry = fstrace.run_cli(root, argv, stdin=stdin)
        return fstrace.parse(dry.log_lines, root, make_classifier(root, names), {f: len(newb) for f in range(1, sc.nfiles + 1)})
    finally:
        shutil.rmtree(root, ignore_errors=True)


def execute_inject(base: Scenario, newb: bytes, inject: str, at) -> dict:
    sc = Scenario(0, base.mode, base.backup, base.nfiles, base.outexists, base.bad, "crashed", [], {})
    sc.link = base.link
    sc.kind, sc.op, sc.file = "generic", f"{at[0]}:{at[1]}", at[2]
    root, names, olds, argv, stdin = materialise(sc, newb.decode())
    try:
        run = fstrace.run_cli(root, argv, stdin=stdin, inject=inject)
        ev = fstrace.parse(run.log_lines, root, make_classifier(root, names), {f: len(newb) for f in range(1, sc.nfiles + 1)})
        st, extra = disk_state(root, names, olds, newb)
        return dict(sc=sc, rc=run.rc, killed=run.killed, events=ev, disk=st, extra=[], inject=inject,
                    stderr=run.stderr.decode(errors="replace")[-300:], stdout_len=len(run.stdout), stdout_ok=None)
    finally:
        shutil.rmtree(root, ignore_errors=True)


def intact_py(sc: Scenario, disk, f) -> bool:
    t, o = disk["target"][f], disk["orig"][f]
    return (t in ("Old", "New") or (sc.mode == "inplace" and sc.backup and t == "Absent" and o == "Old")
            or (sc.mode == "outfile" and not sc.outexists and t == "Absent"))


def run(tier: str) -> int:
    chk = Check("C14", tier, "model_checking")
    chk.rule = ("cases = every terminal scenario of spec/AtomicWrite.tla (mode x backup x 1..2 files x subset of bad inputs x fault or "
                "crash at each operation of each file), each replayed on the real CLI under strace injection; non-trivial = "
                "scenario with an injected fault/kill or a bad input")
    chk.assumptions = ["strace -e inject delivers the error / SIGKILL at the entry of exactly the located syscall",
                       "path roles (target/tmp/orig) are recognised by name: <name>, <name>*.partial, <name>.orig",
                       "a mid-syscall crash (torn write) is modelled (CrashMid) but cannot be reproduced by injection",
                       "'New' is what reformat_text returns in-process for the same input and options"]
    if not fstrace.strace_available():
        raise tlc.TlcError("strace (ptrace) is not usable in this sandbox; C14 cannot observe system calls")
    newb = new_text(OLD).encode()
    assert newb != OLD.encode()
    scenarios = []
    sid = 0
    for mode, backup, nfiles, outexists in CONFIGS:
        res = tlc.run_tlc("AtomicWrite", model_cfg(mode, backup, nfiles, outexists), coverage=True, workers=4)
        chk.add_tlc(res)
        for r in res.reports:
            if r and r[0] == "S":
                _, m, b, n, oe, badv, status, hist, fs = r
                sid += 1
                scenarios.append(Scenario(sid, m, b, n, oe, badv, status, hist, fs))
    # teeth: the direct-write mutant of the model must break TargetIntact
    try:
        tlc.run_tlc("AtomicWrite", model_cfg("inplace", False, 1, True, direct=True, dump=False), workers=2)
        raise tlc.TlcError("model sanity: Direct=TRUE (write into the target) does not violate TargetIntact")
    except tlc.TlcViolation as v:
        if "TargetIntact" not in v.res.violated:
            raise tlc.TlcError(f"model sanity: Direct=TRUE violated {v.res.violated}, expected TargetIntact")
        chk.notes["model_mutant_direct_write"] = "violates TargetIntact as expected"
    # choose errnos / bad kinds; thorough doubles the fault scenarios with a second errno and both bad kinds
    todo = []
    for s in sorted(scenarios, key=lambda s: json.dumps(s.key(), sort_keys=True)):
        variants = [0, 1] if tier == "thorough" else [(s.sid + chk.seed) % 2]
        for v in variants:
            c = Scenario(s.sid, s.mode, s.backup, s.nfiles, s.outexists, s.bad, s.status, s.hist, s.fs)
            if c.kind == "fault":
                c.errno = ERRNO[c.op][v % len(ERRNO[c.op])]
            c.badkind = "decode" if v == 0 else "format"
            if tier == "thorough" and v == 1 and c.kind != "fault" and not any(c.bad):
                continue
            todo.append(c)
    chk.notes["model_scenarios"] = len(scenarios)
    # a stale .orig of an earlier run + an input that cannot be read / formatted: the current file must stay as it is
    for badkind in ("decode", "format"):
        c = Scenario(0, "inplace", True, 1, True, [True], "done", [], {})
        c.stale, c.badkind = True, badkind
        c.kind, c.op, c.file = "generic", "stale .orig + bad input", 1
        todo.append(c)
    for oa in ("same", "dot", "abs", "alias"):
        c = Scenario(0, "stdout", False, 1, True, [False], "done", [], {})
        c.outarg = oa
        c.kind, c.op, c.file = "generic", "-o names the input", 1
        todo.append(c)
    with ThreadPoolExecutor(16) as ex:
        obs = list(ex.map(lambda s: execute(s, newb), todo))
        # implementation-agnostic crash points: kill at EVERY file-system event of the fault-free run of each
        # configuration (whatever system calls the implementation happens to use)
        generic = []
        for mode, backup, nfiles, outexists, link in [c + (False,) for c in CONFIGS] + [c + (True,) for c in LINK_CONFIGS] + [c + ("hard",) for c in LINK_CONFIGS]:
            base = Scenario(0, mode, backup, nfiles, outexists, [False] * nfiles, "done", [], {})
            base.link = link
            for e in dry_events(base, newb):
                if e["op"] in ("exit", "killed"):
                    continue
                generic.append((base, f"{e['sc']}:signal=KILL:when={e['k']}", (e["op"], e["r"], e["f"])))
                if tier == "thorough" and e["op"] in ("open", "write", "rename", "unlink", "close"):
                    generic.append((base, f"{e['sc']}:error=EIO:when={e['k']}", (e["op"], e["r"], e["f"])))
        gobs = list(ex.map(lambda g: execute_inject(g[0], newb, g[1], g[2]), generic))
    chk.notes["generic_crash_points"] = len(gobs)
    obs += gobs
    # ---- leg B verdicts on the real final state, and leg C batches per configuration ----
    batches: dict = {}
    skipped = 0
    tid = 0
    for o in obs:
        sc: Scenario = o["sc"]
        chk.evaluations += 1
        if "skipped" in o:
            skipped += 1
            chk.notes.setdefault("skipped_examples", [])
            if len(chk.notes["skipped_examples"]) < 3:
                chk.notes["skipped_examples"].append(dict(sc.key(), why=o["skipped"]))
            continue
        if sc.kind != "none" or any(sc.bad):
            chk.nontriv(json.dumps(sc.key(), sort_keys=True))
        meta = dict(sc.key(), rc=o["rc"], inject=o["inject"], disk=o["disk"], stderr=o["stderr"],
                    events=[(e["op"], e["r"], e["f"], e.get("r2"), e["ok"]) for e in o["events"]])
        # real final state: property predicates evaluated on what is actually on disk
        for f in range(1, sc.nfiles + 1):
            if not intact_py(sc, o["disk"], f):
                chk.violation("TargetIntact(final disk state)", dict(meta, file=f))
            if sc.bad[f - 1] and (o["disk"]["target"][f] != "Old" or o["disk"]["tmp"][f] != "Absent" or o["disk"]["orig"][f] != ("Stale" if sc.stale else "Absent")):
                chk.violation("FailureAtomic(final disk state)", dict(meta, file=f))
            if sc.mode == "stdout" and (o["disk"]["target"][f] != "Old" or o["disk"]["tmp"][f] != "Absent" or o["disk"]["orig"][f] != "Absent"):
                chk.violation("NoTouchWithoutInplace(final disk state)", dict(meta, file=f))
        if o["extra"]:
            chk.violation("UnexpectedFiles", dict(meta, extra=o["extra"]))
        if sc.kind == "none" and not any(sc.bad):
            done_ok = o["rc"] == 0 and all(o["disk"]["target"][f] == ("Old" if sc.mode == "stdout" else "New") for f in range(1, sc.nfiles + 1))
            if not done_ok:
                chk.violation("Completed(final disk state)", meta)
            if o["stdout_ok"] is False:
                chk.violation("StdoutContent", meta)
        # drift: model prediction of the final state vs disk (informative)
        pred = {r: {int(k): v for k, v in (sc.fs[r].items() if isinstance(sc.fs[r], dict) else enumerate(sc.fs[r], 1))} for r in sc.fs}
        if sc.kind != "generic" and pred != o["disk"] and not (sc.kind == "fault" and sc.op == "write"):
            chk.drift_note(dict(meta, predicted=pred))
        tid += 1
        tr = dict(id=tid, bad=sc.bad, events=fstrace.tla_events(o["events"]))
        batches.setdefault((sc.mode, sc.backup, sc.nfiles, sc.outexists), []).append((tr, meta))
    chk.notes["skipped_unreplayable"] = skipped
    for (mode, backup, nfiles, outexists), items in batches.items():
        cfg = tlc.cfg_text(spec="TraceSpec", constants=dict(NFiles=nfiles, Backup=backup, Mode=mode, Direct=False,
                                                           OutExists=outexists, DoDump=False), invariants=["Observe"])
        traces = [t for t, _ in items]
        sdir = tempfile.mkdtemp(prefix="c14tr-")
        try:
            tf = os.path.join(sdir, "t.json")
            tlc.write_traces(traces, tf)
            r = tlc.run_tlc("FsTrace", cfg, env={"TRACE_FILE": tf}, workers=4)
        finally:
            shutil.rmtree(sdir, ignore_errors=True)
        chk.add_tlc(r)
        chk.traces += len(traces)
        finals = {rep[1]: rep for rep in r.reports if rep[0] == "R"}
        metas = {t["id"]: m for t, m in items}
        for t in traces:
            if t["id"] not in finals:
                raise tlc.TlcError(f"FsTrace: trace {t['id']} has no final report")
        seen = set()
        for rep in r.reports:
            if rep[0] == "V":
                _, id_, upto, names, fs = rep
                inv = sorted(names.values()) if isinstance(names, dict) else sorted(names)
                key = (id_, tuple(inv))
                if key in seen:
                    continue
                seen.add(key)
                chk.violation("+".join(inv) + "(after event)", dict(metas[id_], after_event=upto, fs=fs))
    for o in [o for o in obs if "events" in o][:: max(1, len(obs) // 5)][:5]:
        chk.sample(dict(o["sc"].key(), inject=o["inject"], rc=o["rc"], disk=o["disk"],
                        events=[(e["op"], e["r"], e["f"], e["ok"]) for e in o["events"]][:14]))
    chk.exhaustive = True
    chk.level = "model_checking"
    chk.explanation = ("AtomicWrite.tla explored completely for 8 configurations; every terminal scenario replayed by strace "
                       "injection; every syscall log validated by FsTrace.tla with invariants after each event")
    return chk.finish()


def replay(path: str) -> int:
    v = json.loads(open(path).read())
    print(json.dumps(v, indent=1))
    return 0
