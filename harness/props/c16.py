"""C16 — configuration precedence: explicit flag over config file over default.

Leg A: TLC explores spec/Config.tla completely: the merge machine (Parse records explicit flags; Merge applies config
       values unless explicit or locked by --auto) against the independent specification Effective for every pair of
       settings x flag states x config states x --auto, and the file search against Nearest/priority for every
       population of a three-directory chain with the four config file kinds; four mutants of the model are rejected.
Leg B: every exported point is materialised (directory chain + config files in rotating styles: flat / sectioned,
       kebab / snake) and the real CLI is run twice in-process (formatting a probe; --list-files on a probe tree).
Leg C: for every point the sources (default / flag / config / preset) whose concrete values reproduce the observed
       behaviour are computed from reference runs of reformat_text / FileResolver, and spec/ConfigTrace.tla decides
       whether the specified Effective source is among them (merge) / the observed file is the specified one (locate).
       Plus: every key the config dataclass accepts silently must change some observable behaviour."""
from __future__ import annotations

import dataclasses
import functools
import io
import json
import os
import shutil
import sys
import tempfile

from harness import tlc
from harness.core import Check
from harness.par import pmap

SETTINGS = ["width", "semantic", "cleanups", "smartquotes", "ellipses", "list_spacing", "extend_include", "exclude",
            "extend_exclude", "files_max_size", "respect_gitignore", "force_exclude"]
VALUED = {"width", "list_spacing", "files_max_size"}
AUTOLOCKED = {"semantic", "cleanups", "smartquotes", "ellipses"}
FORMATTING = ["width", "semantic", "cleanups", "smartquotes", "ellipses", "list_spacing"]
DEFAULT = dict(width=88, semantic=False, cleanups=False, smartquotes=False, ellipses=False, list_spacing="preserve",
               extend_include=[], exclude=None, extend_exclude=[], files_max_size=1_048_576, respect_gitignore=True,
               force_exclude=False)
FLAGVAL = dict(width=30, semantic=True, cleanups=True, smartquotes=True, ellipses=True, list_spacing="loose",
               extend_include=["*.mdx"], exclude=["drafts/"], extend_exclude=["drafts/"], files_max_size=100,
               respect_gitignore=False, force_exclude=True)
CFGVAL = dict(width=50, semantic=True, cleanups=True, smartquotes=True, ellipses=True, list_spacing="tight",
              extend_include=["*.txt"], exclude=["sub/"], extend_exclude=["sub/"], files_max_size=200,
              respect_gitignore=False, force_exclude=True)
PRESET = dict(semantic=True, cleanups=True, smartquotes=True, ellipses=True)
KEBAB = {"list_spacing": "list-spacing", "extend_include": "extend-include", "extend_exclude": "extend-exclude",
         "files_max_size": "files-max-size", "respect_gitignore": "respect-gitignore", "force_exclude": "force-exclude"}
PROBE = ('# **Bold Title**\n\nThis is a "quoted" sentence that\'s fairly long and then it ends. The second sentence goes on... for a '
         "little while longer and then stops as well. Third one here!\n\n- tight one\n- tight two\n\n1. loose one\n\n2. loose two\n")
KINDFILE = {"dot": ".flowmark.toml", "plain": "flowmark.toml", "pyp_with": "pyproject.toml", "pyp_without": "pyproject.toml"}


def flag_args(s, state, sp=0):
    """sp rotates through the spellings argparse accepts for the same flag (long / short, separate / attached value, prefix)"""
    if state == "absent":
        return []
    v = DEFAULT[s] if state == "given_default" else FLAGVAL[s]
    if s == "width":
        return [["-w", str(v)], [f"--width={v}"], [f"-w{v}"], ["--width", str(v)], ["--wid", str(v)]][sp % 5]
    if s == "list_spacing":
        return [["--list-spacing", v], [f"--list-spacing={v}"], ["--list-sp", v]][sp % 3]
    if s == "files_max_size":
        return [["--files-max-size", str(v)], [f"--files-max-size={v}"]][sp % 2]
    if s in ("extend_include", "exclude", "extend_exclude"):
        return [[f"--{s.replace('_', '-')}", v[0]], [f"--{s.replace('_', '-')}={v[0]}"]][sp % 2]
    if s == "respect_gitignore":
        return [["--no-respect-gitignore"], ["--no-respect-git"]][sp % 2]
    if s == "force_exclude":
        return [["--force-exclude"], ["--force-ex"]][sp % 2]
    return {"semantic": [["-s"], ["--semantic"]], "cleanups": [["-c"], ["--cleanups"]], "smartquotes": [["--smartquotes"], ["--smartq"]],
            "ellipses": [["--ellipses"], ["--ell"]]}[s][sp % 2]


def cluster(argv):
    """-s -c -w 40 -> -scw40: adjacent short flags written as one cluster (argparse accepts it; explicitness must survive)"""
    shorts = [a for a in argv if a in ("-s", "-c")]
    w = next((j for j, a in enumerate(argv) if a == "-w"), None)
    if not shorts or (w is None and len(shorts) < 2):
        return argv
    rest = [a for j, a in enumerate(argv) if a not in ("-s", "-c") and not (w is not None and j in (w, w + 1))]
    return ["-" + "".join(x[1] for x in shorts) + (f"w{argv[w + 1]}" if w is not None else "")] + rest


EMPTY_EXCLUDE = [False]       # per job: the config file sets `exclude = []` (an empty list REPLACES the default exclusions: nothing is excluded)


def cfg_value(s, auto):
    """the value a config file sets: non-default; for the switches --auto locks, the opposite of the preset when auto"""
    if auto and s in AUTOLOCKED:
        return False
    if s == "exclude" and EMPTY_EXCLUDE[0]:
        return []
    return CFGVAL[s]


def toml_val(v):
    if isinstance(v, bool):
        return "true" if v else "false"
    if isinstance(v, int):
        return str(v)
    if isinstance(v, str):
        return json.dumps(v)
    return "[" + ", ".join(json.dumps(x) for x in v) + "]"


def render_config(values: dict, style: int, pyproject=False) -> str:
    """style bit3: mixed (flat formatting keys + [file-discovery] section) when the values span both groups; bit0: kebab(0)/snake(1) keys; bit1: flat(0)/sectioned(1); bit2 (sectioned pyproject only): no bare [tool.flowmark] header line"""
    snake, sectioned = style & 1, style & 2
    lines = {"formatting": [], "file-discovery": []}
    for s, v in values.items():
        key = s if snake else KEBAB.get(s, s)
        lines["formatting" if s in FORMATTING else "file-discovery"].append(f"{key} = {toml_val(v)}")
    pre = "tool.flowmark." if pyproject else ""
    if style & 8 and lines["formatting"] and lines["file-discovery"]:
        # mixed: the formatting keys flat at the top, the file-discovery keys in their section (both spellings are accepted together)
        return ("[tool.flowmark]\n" if pyproject else "") + "\n".join(lines["formatting"]) + f"\n[{pre}file-discovery]\n" + "\n".join(lines["file-discovery"]) + "\n"
    if sectioned:
        out = []
        if pyproject and not style & 4:
            out.append("[tool.flowmark]")
        for sec, ls in lines.items():
            if ls:
                out += [f"[{pre}{sec}]"] + ls
        return "\n".join(out) + "\n"
    return ("[tool.flowmark]\n" if pyproject else "") + "\n".join(lines["formatting"] + lines["file-discovery"]) + "\n"


def make_tree(root):
    t = os.path.join(root, "tree")
    os.makedirs(os.path.join(t, "node_modules"))
    os.makedirs(os.path.join(t, "drafts"))
    os.makedirs(os.path.join(t, "sub"))
    w = lambda p, n: open(os.path.join(t, p), "w").write("x" * n)  # noqa: E731
    w("a.md", 10), w("mid.md", 150), w("big.md", 250), w("c.mdx", 10), w("d.txt", 10), w("ign.md", 10)
    w("node_modules/x.md", 10), w("drafts/e.md", 10), w("sub/f.md", 10)
    open(os.path.join(t, ".gitignore"), "w").write("ign.md\n")


def run_cli(argv, stdin=""):
    from flowmark.cli import main
    old = sys.stdin, sys.stdout, sys.stderr
    sys.stdin, sys.stdout, sys.stderr = io.StringIO(stdin), io.StringIO(), io.StringIO()
    try:
        try:
            rc = main(argv)
        except SystemExit as e:
            rc = e.code if isinstance(e.code, int) else 1
        except BaseException as e:  # noqa: BLE001
            return 99, "", repr(e)
        return rc, sys.stdout.getvalue(), sys.stderr.getvalue()
    finally:
        sys.stdin, sys.stdout, sys.stderr = old


@functools.lru_cache(maxsize=None)
def ref_format(width, semantic, cleanups, smartquotes, ellipses, ls):
    from flowmark import reformat_text
    from flowmark.formats.flowmark_markdown import ListSpacing
    return reformat_text(PROBE, width=width, plaintext=False, semantic=semantic, cleanups=cleanups, smartquotes=smartquotes,
                         ellipses=ellipses, list_spacing=ListSpacing(ls))


def ref_list(root, vals):
    from flowmark.file_resolver import FileResolver, FileResolverConfig
    cfg = FileResolverConfig(extend_include=list(vals["extend_include"]), exclude=None if vals["exclude"] is None else list(vals["exclude"]),
                             extend_exclude=list(vals["extend_exclude"]), respect_gitignore=vals["respect_gitignore"],
                             force_exclude=vals["force_exclude"], files_max_size=vals["files_max_size"])
    return "".join(str(p) + "\n" for p in FileResolver(cfg).resolve(["tree", "tree/node_modules/x.md"]))


def value_of(s, src, auto):
    if src == "default":
        return DEFAULT[s]
    if src == "flagval":
        return FLAGVAL[s]
    if src == "cfgval":
        return cfg_value(s, auto)
    return PRESET.get(s, DEFAULT[s])


def observe(argv_extra, auto):
    """two CLI runs in the current directory: formatting probe.md, and --list-files"""
    open("probe.md", "w").write(PROBE)
    if auto:
        rc1, _, err1 = run_cli(["--auto"] + argv_extra + ["probe.md"])
        fmt = open("probe.md").read()
    else:
        rc1, fmt, err1 = run_cli(argv_extra + ["probe.md"])
    rc2, lst, err2 = run_cli((["--auto"] if auto else []) + argv_extra + ["--list-files", "tree", "tree/node_modules/x.md"])
    return rc1, fmt, err1, rc2, lst, err2


def _merge_point(job):
    idx, p = job
    d = os.path.realpath(tempfile.mkdtemp(prefix="c16-"))
    cwd0 = os.getcwd()
    try:
        os.chdir(d)
        make_tree(d)
        auto = p["auto"]
        EMPTY_EXCLUDE[0] = bool(idx % 2)
        cfgvals = {s: cfg_value(s, auto) for s, c in ((p["s1"], p["c1"]), (p["s2"], p["c2"])) if c == "set"}
        # "setdef": the config file spells out the built-in default (not expressible for exclude, whose default is "not set")
        cfgvals.update({s: DEFAULT[s] for s, c in ((p["s1"], p["c1"]), (p["s2"], p["c2"])) if c == "setdef" and DEFAULT[s] is not None})
        if cfgvals:
            open("flowmark.toml", "w").write(render_config(cfgvals, idx % 16))
        argv = flag_args(p["s1"], p["f1"], idx // 4) + flag_args(p["s2"], p["f2"], idx // 4 + 1)
        if idx % 3 == 0:
            argv = cluster(argv)
        rc1, fmt, err1, rc2, lst, err2 = observe(argv, auto)
        base = {s: (PRESET[s] if auto and s in PRESET else DEFAULT[s]) for s in SETTINGS}
        obs = []
        for a in ("default", "flagval", "cfgval", "preset"):
            for b in ("default", "flagval", "cfgval", "preset"):
                vals = dict(base)
                vals[p["s1"]] = value_of(p["s1"], a, auto)
                vals[p["s2"]] = value_of(p["s2"], b, auto)
                if ref_format(*(vals[k] if k != "list_spacing" else vals[k] for k in FORMATTING)) == fmt and ref_list(d, vals) == lst:
                    obs.append([a, b])
        return dict(idx=idx, obs=obs, rc=[rc1, rc2], err=(err1 + err2)[-300:], argv=argv, cfg=cfgvals, fmt_head=fmt[:120], lst=lst.replace(d, "")[:400])
    except BaseException as e:  # noqa: BLE001
        return dict(idx=idx, obs=[], rc=[98, 98], err=repr(e)[:300], argv=[], cfg={}, fmt_head="", lst="")
    finally:
        os.chdir(cwd0)
        shutil.rmtree(d, ignore_errors=True)


def loc_width(dpt, kind):
    return 22 + dpt * 18 + ["dot", "plain", "pyp_with"].index(kind) * 6


def _locate_point(job):
    idx, p = job          # p: {"0": {kind: bool}, "1": .., "2": ..}
    root = os.path.realpath(tempfile.mkdtemp(prefix="c16-"))
    cwd0 = os.getcwd()
    try:
        dirs = {2: os.path.join(root, "g"), 1: os.path.join(root, "g", "p"), 0: os.path.join(root, "g", "p", "c")}
        os.makedirs(dirs[0])
        widths = {}
        for dpt in (0, 1, 2):
            kinds = [k for k, on in p[str(dpt)].items() if on]
            for k in kinds:
                if k == "pyp_without":
                    if "pyp_with" in kinds:
                        continue                     # one pyproject.toml per directory: the table wins the file
                    # no flowmark table, though the text may mention one
                    open(os.path.join(dirs[dpt], "pyproject.toml"), "w").write('[tool.other]\nwidth = 17\n' if (idx + dpt) % 2 else
                                                                               '# [tool.flowmark]\n[tool.other]\nnote = "[tool.flowmark]"\nwidth = 17\n')
                    continue
                wv = loc_width(dpt, k)
                widths[wv] = [dpt, k]
                open(os.path.join(dirs[dpt], KINDFILE[k]), "w").write(render_config({"width": wv}, (idx + dpt) % 8, pyproject=(k == "pyp_with")))
        os.chdir(dirs[0])
        open("probe.md", "w").write(PROBE)
        rc, fmt, err = run_cli(["probe.md"])
        obs = []
        if fmt == ref_format(88, False, False, False, False, "preserve"):
            obs.append([])
        for wv, dk in widths.items():
            if fmt == ref_format(wv, False, False, False, False, "preserve"):
                obs.append(dk)
        return dict(idx=idx, obs=obs, rc=rc, err=err[-300:], fmt_head=fmt[:100])
    except BaseException as e:  # noqa: BLE001
        return dict(idx=idx, obs=[], rc=98, err=repr(e)[:300], fmt_head="")
    finally:
        os.chdir(cwd0)
        shutil.rmtree(root, ignore_errors=True)


def _key_effect(job):
    """every key accepted without a warning must have an effect"""
    name, typ = job
    d = os.path.realpath(tempfile.mkdtemp(prefix="c16-"))
    cwd0 = os.getcwd()
    try:
        os.chdir(d)
        make_tree(d)
        base = observe([], False)
        if name in CFGVAL:
            v = CFGVAL[name]
        elif "bool" in typ:
            v = True
        elif "int" in typ:
            v = 50
        elif "list" in typ:
            v = ["*.txt"]
        else:
            v = "tight"
        open("flowmark.toml", "w").write(f"{name} = {toml_val(v)}\n")
        got = observe([], False)
        warned = "unrecognized" in (got[2] + got[5]).lower() or "warning" in (got[2] + got[5]).lower()
        return dict(key=name, value=v, warned=warned, effect=(got[1] != base[1] or got[4] != base[4]), err=(got[2] + got[5])[-200:])
    finally:
        os.chdir(cwd0)
        shutil.rmtree(d, ignore_errors=True)


CONSTS = dict(Settings=set(SETTINGS), Valued=VALUED, AutoLocked=AUTOLOCKED, Mutant="none")


def run(tier: str) -> int:
    chk = Check("C16", tier, "model_checking")
    chk.rule = ("cases = complete products of spec/Config.tla: (ordered pairs of the 12 settings) x flag state x config state (unset / non-default / default spelled out) x --auto, and "
                "all 4096 populations of a 3-directory chain with 4 config file kinds; quick executes every third merge point and every "
                "fourth locate point (seeded offset), thorough all; non-trivial = point with a flag given or a config value set / a file present")
    chk.assumptions = ["effective behaviour is observed end to end (formatted probe bytes, --list-files output) and compared with reference runs of "
                       "reformat_text / FileResolver on the same tree", "no flowmark config file exists in /tmp or / (checked)"]
    for up in ("/tmp", "/"):
        for fn in (".flowmark.toml", "flowmark.toml"):
            if os.path.exists(os.path.join(up, fn)):
                raise tlc.TlcError(f"stray config file {up}/{fn} would disturb the search")
    res = tlc.run_tlc("Config", tlc.cfg_text(constants=dict(CONSTS, DoDump=True), invariants=["Precedence", "Located", "Dump"]), coverage=True)
    chk.add_tlc(res)
    for act in ("Parse", "Merge", "Search"):
        if res.coverage.get(act, (0, 0))[0] == 0:
            raise tlc.TlcError(f"vacuous model: {act} never taken")
    for mut in ("compare_with_default", "width_untracked", "auto_not_locked", "plain_before_dot"):
        try:
            tlc.run_tlc("Config", tlc.cfg_text(constants=dict(CONSTS, Mutant=mut, DoDump=False), invariants=["Precedence", "Located"]), workers=8)
            raise tlc.TlcError(f"model sanity: mutant {mut} not rejected")
        except tlc.TlcViolation:
            pass
    # the locate family identifies the chosen file by its width: the probe must separate all candidate widths
    cand = [88] + [loc_width(d, k) for d in (0, 1, 2) for k in ("dot", "plain", "pyp_with")]
    if len({ref_format(w, False, False, False, False, "preserve") for w in cand}) != len(cand):
        raise tlc.TlcError("probe does not separate the candidate widths of the locate family")
    merge = sorted((r for r in res.reports if r and r[0] == "M"), key=json.dumps)
    locate = sorted((r for r in res.reports if r and r[0] == "L"), key=json.dumps)
    chk.notes["model_points"] = dict(merge=len(merge), locate=len(locate))
    if tier == "quick":
        merge = [m for k, m in enumerate(merge) if (k + chk.seed) % 3 == 0]
        locate = [m for k, m in enumerate(locate) if (k + chk.seed) % 4 == 0]
    mres = pmap(_merge_point, [(i, m[1]) for i, m in enumerate(merge)], chunksize=25)
    lres = pmap(_locate_point, [(i, m[1]) for i, m in enumerate(locate)], chunksize=25)
    traces, metas = [], {}
    tid = 0
    for m, r in zip(merge, mres):
        tid += 1
        chk.evaluations += 1
        p = m[1]
        traces.append(dict(id=tid, fam="merge", p=p, obs=r["obs"]))
        metas[tid] = dict(fam="merge", point=p, model_eff=m[2], observed_sources=r["obs"], rc=r["rc"], stderr=r["err"], argv=r["argv"],
                          config=r["cfg"], output_head=r["fmt_head"], listing=r["lst"])
        if p["f1"] != "absent" or p["c1"] != "unset" or p["f2"] != "absent" or p["c2"] != "unset":
            chk.nontriv(json.dumps(p, sort_keys=True))
    for m, r in zip(locate, lres):
        tid += 1
        chk.evaluations += 1
        p = [[k for k, on in m[1][str(d)].items() if on] for d in (0, 1, 2)]
        traces.append(dict(id=tid, fam="locate", p=p, obs=r["obs"]))
        metas[tid] = dict(fam="locate", dirs=p, model_chosen=m[2], observed=r["obs"], rc=r["rc"], stderr=r["err"], output_head=r["fmt_head"])
        if any(p):
            chk.nontriv(json.dumps(p))
    reports, gen, dist = tlc.validate_traces("ConfigTrace", traces, cfg=tlc.cfg_text(spec="TraceSpec", constants=dict(CONSTS, DoDump=False),
                                                                                     invariants=["Report"]))
    chk.states += dist
    chk.transitions += gen
    chk.traces = len(traces)
    for t in traces:
        _, id_, machine_ok, consistent, spec_val = reports[t["id"]]
        if not consistent:
            chk.violation("Precedence" if t["fam"] == "merge" else "NearestConfigFile", dict(metas[id_], specified=spec_val))
        elif not machine_ok:
            chk.drift_note(metas[id_])
    # every key accepted silently has an effect (keys taken from the dataclass, so new keys are covered automatically)
    from flowmark.config import FlowmarkConfig
    keys = [(f.name, str(f.type)) for f in dataclasses.fields(FlowmarkConfig)]
    for r in pmap(_key_effect, keys, procs=1):
        chk.evaluations += 1
        if not r["warned"] and not r["effect"]:
            if r["key"] == "include" and "D17" in chk.open_findings:
                chk.known_finding("D17", r)
            else:
                chk.violation("EveryKeyHasEffect", r)
    chk.notes["config_keys"] = [k for k, _ in keys]
    for id_ in list(metas)[:: max(1, len(metas) // 5)][:5]:
        chk.sample({k: v for k, v in metas[id_].items() if k in ("fam", "point", "dirs", "argv", "config", "observed_sources", "observed")})
    chk.exhaustive = tier == "thorough"
    chk.explanation = "Config.tla explored completely; thorough executes every point on the real CLI, quick a seeded third/quarter"
    return chk.finish()


def replay(path: str) -> int:
    v = json.loads(open(path).read())
    print(json.dumps(v, indent=1))
    c = v["case"]
    if c.get("fam") == "merge":
        print(_merge_point((0, c["point"])))
    return 0
