"""C01 — formatting preserves the meaning of the document.

Family S (structure): TLC enumerates every document (token stream of a marko-shaped AST: paragraph, heading, code, blank
  line, quote, tight/loose list, item) of spec/RenderRead.tla up to the bound, renders it with the renderer machine
  (Render: one action per render_* call) and reads the emitted lines back with CommonMark's container rules (Reader):
  the model-level verdict Read(Render(d)) = d is computed for the whole bounded space.  Every document is concretised,
  re-parsed by the real marko (realisability by construction), formatted by the real reformat_text, and the output is
  projected by the real marko AND by markdown-it.  spec/DocTrace.tla validates each observation: the machine's lines equal the
  observed lines (drift), the observed lines read back as the document (Reader), and -- the verdict -- the normalised trees of
  input and output are equal for both parsers.
Family T (text): container paths x paragraphs with one structure-looking word at every non-initial position x widths x
  {fill, semantic}: a wrap point must never make a word start a list, heading, quote, rule or fence.  Observed lines are
  validated against the wrapper machines (WrapTrace / SentenceTrace) and the tree predicate.
Attribution: a failing case is excused only if it is step-for-step the behaviour of the as-is model AND the trigger of an
  open finding is present (see known_findings.json)."""
from __future__ import annotations

import json

from harness import docgen, docs, project, tlc, vocab
from harness.core import Check
from harness.par import pmap

OPTS_S = [dict(width=88, semantic=False, cleanups=False), dict(width=0, semantic=True, cleanups=False)]
# documents evaluated on every run in addition to the bounded enumeration (witnesses of open findings beyond the bound)
WITNESS_S = [("Lt(", "I(", "Lt(", "I(", "P", ")", "I(", "P", ")", ")", ")", ")"),
             # D44 beyond the quick bound: a loose list as a later block of an item of a tight list / opening a later item of a tight list
             ("Lt(", "I(", "P", "Ll(", "I(", "P", ")", "I(", "P", ")", ")", ")", ")"),
             ("Lt(", "I(", "P", ")", "I(", "Ll(", "I(", "P", ")", "I(", "P", ")", ")", ")", ")")]
D1_FIXED = True     # TRUE once the escape set of markdown_escape_word covers the 'x' words below

T_CONTAINERS = [  # (name, source first-line prefix, rendered first prefix, rendered continuation prefix)
    ("top", "", "", ""), ("bullet", "- ", "- ", "  "), ("quote", "> ", "> ", "> "), ("ordered", "1. ", "1. ", "   "),
    ("bullet>quote", "- > ", "- > ", "  > "), ("quote>bullet", "> - ", "> - ", ">   "), ("footnote", "[^1]: ", "[^1]: ", "    "),
    ("nested", "- a\n  - ", "  - ", "    ")]
HAZ_H = ["-", "+", "*", "#", "##", ">"]
HAZ_N = ["1.", "1)", "7.", "10."]
HAZ_X = [">x", "---", "===", "=", "--", "```", "~~~", "***", "___"]
HAZ_P = ["|", "|x", "[x]", "<div>", "-x", "#x", "&amp;", "[a]:", "1.x", "+1"]
HAZ_B = ["\\"]
PLAIN = ["aaaa", "bbbb", "cccc", "dddd", "eeee"]


def kind_of(tok: str) -> str:
    if tok in HAZ_H:
        return "h"
    if tok in HAZ_N:
        return "n"
    if tok in HAZ_X:
        return "x"
    if tok in HAZ_B:
        return "b"
    if tok.endswith(".") and tok[:-1].isalpha():
        return "s"
    return "p"


def t_cases(tier):
    widths = (10, 18, 30) if tier == "quick" else (10, 14, 18, 24, 30)
    cases = []
    for cname, sfirst, ii, si in T_CONTAINERS:
        for n in (4, 5):
            for pos in range(1, n):
                for hz in HAZ_H + HAZ_N + HAZ_X + HAZ_P + HAZ_B:
                    before = len(ii) + len(" ".join(PLAIN[:pos]))          # the hazard word would need column before + 1 ..
                    for w in sorted(set(widths) | {before, before + 1, before + len(hz)}):
                        for mode, prevsent in (("fill", False), ("sem", False), ("sem", True)):
                            if w not in widths and mode == "sem" and tier == "quick":
                                continue
                            toks = PLAIN[:n]
                            toks[pos] = hz
                            if prevsent:
                                toks[pos - 1] = toks[pos - 1][:3] + "x."
                            cases.append((cname, sfirst, ii, si, toks, w, mode))
    return cases


def eval_t(job):
    cname, sfirst, ii, si, toks, width, mode = job
    text = " ".join(toks)
    x = sfirst + text + "\n"
    if cname == "footnote":
        x = "ref[^1]\n\n" + x
    opts = dict(width=width, semantic=(mode == "sem"), cleanups=False)
    r = docs.eval_text(x, opts)
    r.update(src=x, opts=opts, cname=cname, toks=toks, ii=ii, si=si, mode=mode)
    if "exc" in r:
        return r
    r.pop("mdit_tree_in", None)
    # locate the paragraph's lines in the output: the lines from the one starting with ii + first token
    lines = r["out1"].split("\n")
    if lines and lines[-1] == "":
        lines.pop()
    start = next((j for j, l in enumerate(lines) if l.startswith(ii + toks[0])), None)
    if start is None:
        r["abs"] = None
        return r
    para = []
    for l in lines[start:]:
        if l.strip() == si.strip():
            break
        para.append(l)
    r["abs"] = vocab.abstract_lines(toks, para, ii, si, True)
    r["para"] = para
    return r


def run(tier: str) -> int:
    chk = Check("C01", tier, "model_checking")
    bound = (5, 3) if tier == "quick" else (6, 4)
    chk.rule = (f"family S: every realisable document of spec/RenderRead.tla with <= {bound[0]} nodes / depth <= {bound[1]} (and <= {4 if tier == 'quick' else 5} nodes with tables and rules) x 2 option sets; "
                "family T: 8 container paths x 30 structure-looking words at every non-initial position of 4-5 word paragraphs x 5 widths x "
                "{fill, semantic}; non-trivial = distinct realisable document with a container, or a T case whose output has >= 2 lines")
    chk.assumptions = ["projections harness/project.py (marko as configured by flowmark, markdown-it with html_block off) are the trusted readers",
                       "a source text is used only if both parsers read the same block structure from it (else discarded as ambiguous)"]
    model, mres = docs.model_docs(*bound)
    chk.add_tlc(mres)
    # second instance of the model: the full leaf alphabet (tables, thematic breaks) at a smaller bound
    bound2 = (4, 3) if tier == "quick" else (5, 3)
    model2, mres2 = docs.model_docs(*bound2, leafs={"P", "H", "B", "C", "T", "R"})
    chk.add_tlc(mres2)
    model = {**model2, **model}
    # third instance: deep nesting with paragraphs and blank lines only (prefix bookkeeping five containers deep: D50 needed depth 5)
    bound3 = (7, 5) if tier == "quick" else (9, 5)
    model3, mres3 = docs.model_docs(*bound3, leafs={"P", "B"})
    chk.add_tlc(mres3)
    model = {**model3, **model}
    # ---- family S ----
    jobs, seen = [], set()
    import harness.docgen as dg
    for toks in sorted(model):
        x = dg.src(list(toks))
        jobs.append((toks, x))
    # de-duplicate by real token stream (cheap parse) before the expensive evaluation
    rts = pmap(_real, [x for _, x in jobs], chunksize=200)
    todo = []
    outside = 0
    for (toks, x), rt in zip(jobs, rts):
        if rt is None or any(t not in docs.S_ALPHABET for t in rt):
            chk.discarded += 1
            continue
        key = tuple(rt)
        if key in seen:
            continue
        seen.add(key)
        if key not in model:
            outside += 1
            continue
        for o in OPTS_S:
            todo.append((key, o))
    for w in WITNESS_S:
        for o in OPTS_S:
            todo.append((w, o))
    chk.notes["model_docs"] = len(model)
    chk.notes["realisable_docs"] = len(seen)
    chk.notes["realisable_outside_model_bound"] = outside
    results = pmap(docs.eval_s, todo, chunksize=100)
    traces, metas = [], {}
    tid = 0
    for (key, o), r in zip(todo, results):
        chk.evaluations += 1
        if "exc" in r:
            chk.violation("NoException", dict(src=r.get("src"), opts=o, exc=r["exc"]))
            continue
        if r["ambiguous"]:
            chk.discarded += 1
            continue
        if list(r["rt"]) != list(key):
            chk.discarded += 1
            continue
        tid += 1
        traces.append(docs.trace_of(tid, "S", r))
        metas[tid] = dict(fam="S", toks=list(key), src=r["src"], opts=o, out=r["out1"])
        if any(t.endswith("(") for t in key):
            chk.nontriv(("S", key))
    reports, gen, dist = tlc.validate_traces("DocTrace", traces, cfg=docs.DOC_TRACE_CFG, timeout=3000)
    chk.states += dist
    chk.transitions += gen
    chk.traces += len(traces)
    stats = dict(ok=0, D31=0, D6=0)
    for t in traces:
        _, id_, acc, dm, di, idem, rt_ok, prefix_ok, hazard_ok = reports[t["id"]]
        m = metas[id_]
        if dm == 0 and di == 0:
            stats["ok"] += 1
            if not acc:
                chk.drift_note(dict(m, why="observed lines differ from the renderer machine"))
            elif not rt_ok:
                chk.drift_note(dict(m, why="the Reader model reads the output back differently, the real parsers do not"))
            continue
        clause = "SameDocument(marko)" if dm else "SameDocument(markdown-it)"
        info = dict(m, first_diff_marko=dm, first_diff_mdit=di, marko_in=t["tm_in"][max(0, dm - 2): dm + 2], marko_out=t["tm_out"][max(0, dm - 2): dm + 2])
        # attribution: as-is model behaviour + trigger of an open finding
        predicted = acc and not rt_ok      # the as-is renderer machine produces exactly these lines and the Reader model reads them back differently
        if predicted and docs.heading_in_tight_item(m["toks"]) and "D31" in chk.open_findings:
            chk.known_finding("D31", info)
            stats["D31"] += 1
        elif predicted and docs.list_first_in_item(m["toks"]) and "D6" in chk.open_findings:
            chk.known_finding("D6", info)
            stats["D6"] += 1
        elif predicted and "D44" in chk.open_findings and _d44_any(m["src"]):
            # D44 (either face) beyond the pair / container families: the as-is renderer machine emits exactly the observed lines (so a change
            # of the separator logic is not excused) and the source has the shape of the finding
            chk.known_finding("D44", info)
            stats["D44"] = stats.get("D44", 0) + 1
        else:
            chk.violation(clause, info)
    chk.notes["family_S"] = stats
    run_family_t(chk, tier)
    run_family_p(chk, tier)
    run_family_v(chk, tier, sorted(seen))
    run_family_r(chk, tier)
    run_family_c(chk, tier)
    from harness import inline
    inline.judge(chk, tier, "C01")
    from harness import table
    table.judge(chk, tier, "C01")
    from harness import link
    link.judge(chk, tier, "C01")
    from harness import lineends
    lineends.judge(chk, tier, "C01")
    for id_ in list(metas)[:: max(1, len(metas) // 4)][:4]:
        chk.sample({k: metas[id_][k] for k in ("fam", "toks", "src", "opts", "out")})
    chk.exhaustive = True
    chk.explanation = "RenderRead.tla explored completely up to the bound; every realisable document replayed and validated"
    return chk.finish()


SNIPPETS = [
    ("para", "Plain paragraph text here."), ("escapes", "1\\. not a list"), ("escapes2", "\\# not heading and 2\\) paren"), ("heading", "## Heading two"),
    ("setext", "Setext title\n==="), ("setext2", "Setext title\nsecond line of it\n---"), ("ordered0", "0. zero\n1. one"), ("ordered_paren", "7) seven\n8) eight"), ("heading_bs", "# Windows drive C:\\"), ("heading_br", "## Heading with break\\\nnext"), ("bullet", "- item a\n- item b"), ("bullet_esc", "- 2\\. text in item\n- b"), ("ordered", "3. three\n4. four"),
    ("quote", "> quoted line"), ("code", "```\ncode\n```"), ("table", "| A | B |\n|---|---|\n| x | y |"), ("hr", "* * *"),
    ("def", "[ref]: http://example.com/x \"T\""), ("footnote", "[^n]: Note text."), ("html", "<div>inline html</div> text"),
    ("hardbreak", "line one\\\nline two"), ("task", "- [ ] todo\n- [x] done"), ("otask", "1. [x] done\n2. [ ] open\n\n   second paragraph"), ("startask", "* [ ] star\n+ [x] plus"), ("alert", "> [!NOTE]\n> Body."), ("link", "See [ref] and [t](http://u.v \"ti\")."),
    ("emph", "*em* **strong** `code` ~~del~~"), ("nested", "- a\n  - b\n\n    para in b"), ("digits", "1986\\. A year"),
    ("fn_first_in_item", "- [^m]: note in item\n\n  second para of the item\n- next[^m]"), ("fn_first_in_oitem", "1. [^k]: note\n\n   ```\n   code\n   ```\n2. two[^k]"),
    ("tilde_sym", "about ~100 (+~200 extra) and cost~$5~ each, ~100 and <~200 items, approx~=5~ish"), ("tilde_del", "~~two~~ and a ~~b c~~ d"),       # single-tilde strikethrough is GFM only: the CommonMark reference parser reads it as text
    ("esc_entity", r"""AT&amp\;T and &#35\; and <\/b> and <br\/> and <a href=\"x\"> stay text, as do \&amp; and \<b> and 1986\, x\' y"""),
    ("emptyquote_note", ">\n[!NOTE]\ntext after an empty quote"), ("quote_then_tip", "> quoted\n>\n[!TIP] is text here"),
    ("listfirst", "- - a\n\n  - b\n\n  para after inner"), ("olistfirst", "1. - x\n\n   - y\n2. z"),
]


# blocks that may interrupt a paragraph: written directly under a paragraph line, without the blank line every other family puts between blocks
PARA_LIKE = ("para", "link", "emph", "digits")
INTERRUPTERS = ("bullet", "bullet_esc", "olistfirst", "listfirst", "task", "otask", "startask", "heading", "quote", "code", "hr", "alert", "nested", "fn_first_in_item")


def eval_p(job):
    (na, a), (nb, b), opts = job[:3]
    x = a + (job[3] if len(job) > 3 else "\n\n") + b + "\n"
    r = docs.eval_text(x, opts)
    r.update(src=x, opts=opts, pair=[na, nb])
    r.pop("mdit_tree_in", None)
    return r


def run_family_p(chk: Check, tier: str) -> None:
    jobs = [(sa, sb, o) for sa in SNIPPETS for sb in SNIPPETS for o in (OPTS_S if tier == "thorough" else OPTS_S[:1])]
    jobs += [(sa, sb, o, "\n") for sa in SNIPPETS if sa[0] in PARA_LIKE for sb in SNIPPETS if sb[0] in INTERRUPTERS for o in (OPTS_S if tier == "thorough" else OPTS_S[:2])]
    traces, metas = [], {}
    for tid, (job, r) in enumerate(zip(jobs, pmap(eval_p, jobs, chunksize=40)), 1):
        chk.evaluations += 1
        if "exc" in r:
            chk.violation("NoException", dict(src=r["src"], opts=r["opts"], exc=r["exc"]))
            continue
        traces.append(docs.trace_of(tid, "P", r))
        metas[tid] = dict(fam="P", pair=r["pair"], src=r["src"], opts=r["opts"], out=r["out1"])
        chk.nontriv(("P", r["pair"][0], r["pair"][1], docs.dumps(r["opts"])))
    reports, gen, dist = tlc.validate_traces("DocTrace", traces, cfg=docs.DOC_TRACE_CFG, timeout=3000)
    chk.states += dist
    chk.transitions += gen
    chk.traces += len(traces)
    bad = 0
    for t in traces:
        _, id_, _acc, dm, di, _idem, _rt, _pfx, _hz = reports[t["id"]]
        if dm or di:
            bad += 1
            m = metas[id_]
            a, b = t["tm_in"], t["tm_out"]
            only_loosened = len(a) == len(b) and all(x == y or (x.startswith("list:") and x.replace(":tight(", ":loose(") == y) for x, y in zip(a, b))
            if "nested" in m["pair"] and only_loosened and "D44" in chk.open_findings:
                chk.known_finding("D44", m)
                continue
            chk.violation("SameDocument(marko)" if dm else "SameDocument(markdown-it)",
                          dict(m, first_diff_marko=dm, first_diff_mdit=di, marko_in=t["tm_in"][max(0, dm - 2): dm + 2], marko_out=t["tm_out"][max(0, dm - 2): dm + 2]))
    chk.notes["family_P"] = dict(pairs=len(traces), failing=bad)


CONTAINERS_C = [("quote", "> ", "> "), ("bullet", "- ", "  "), ("ordered", "1. ", "   "), ("ordered10", "10. ", "    "), ("footnote", "[^1]: ", "    "),
                ("alert", "> [!NOTE]\n> ", "> "), ("quote>bullet", "> - ", ">   "), ("bullet>quote", "- > ", "  > "), ("nested", "- a\n  - ", "    "),
                ("task", "- [ ] ", "  "), ("quote>quote", "> > ", "> > ")]


def wrap_in(first: str, cont: str, text: str) -> str:
    lines = text.split("\n")
    return "\n".join((first if j == 0 else (cont.rstrip() if l == "" else cont)) + l for j, l in enumerate(lines))


def eval_c(job):
    (cname, first, cont), lead, (na, a), opts = job
    body = (lead + "\n\n" + a) if lead else a
    x = ("ref[^1]\n\n" if cname == "footnote" else "") + wrap_in(first, cont, body) + "\n\nafter\n"
    r = docs.eval_text(x, opts)
    r.update(src=x, opts=opts, pair=[cname + ("+lead" if lead else ""), na])
    r.pop("mdit_tree_in", None)
    return r


def _d44_any(src: str) -> bool:
    from harness.props import c02
    tree = project.parse_marko(src)
    return c02.d44_shape(tree) or c02.d44_first_shape(tree, any_enclosing=True)


def d44_first_shape(tree, any_enclosing=True) -> bool:
    from harness.props import c02
    return c02.d44_first_shape(tree, any_enclosing=any_enclosing)


def run_family_c(chk: Check, tier: str) -> None:
    """every block snippet inside every container, as the first block of the container and after a leading paragraph"""
    opts = OPTS_S if tier == "thorough" else OPTS_S[:1]
    jobs = [(c, lead, sn, o) for c in CONTAINERS_C for lead in ("", "lead text") for sn in SNIPPETS for o in opts
            if not (sn[0] in ("def", "footnote") and c[0] != "quote")]          # definitions are document-level constructs
    traces, metas = [], {}
    for tid, (job, r) in enumerate(zip(jobs, pmap(eval_c, jobs, chunksize=40)), 1):
        chk.evaluations += 1
        if "exc" in r:
            chk.violation("NoException", dict(src=r["src"], opts=r["opts"], exc=r["exc"]))
            continue
        traces.append(docs.trace_of(tid, "C", r))
        metas[tid] = dict(fam="C", pair=r["pair"], src=r["src"], opts=r["opts"], out=r["out1"])
        chk.nontriv(("C", r["pair"][0], r["pair"][1], docs.dumps(r["opts"])))
    reports, gen, dist = tlc.validate_traces("DocTrace", traces, cfg=docs.DOC_TRACE_CFG, timeout=3000)
    chk.states += dist
    chk.transitions += gen
    chk.traces += len(traces)
    stats = dict(ok=0, D44=0, D49=0, failing=0)
    for t in traces:
        _, id_, _acc, dm, di, _idem, _rt, _pfx, _hz = reports[t["id"]]
        if not (dm or di):
            stats["ok"] += 1
            continue
        m = metas[id_]
        a, b = t["tm_in"], t["tm_out"]
        only_loosened = len(a) == len(b) and all(x == y or (x.startswith("list:") and x.replace(":tight(", ":loose(") == y) for x, y in zip(a, b))
        # D44: a loose list that follows another block inside an item gets its separator also before its first item
        if ("nested" in m["pair"][1] or m["pair"][0].startswith("nested+lead")) and only_loosened and "D44" in chk.open_findings:
            chk.known_finding("D44", m)
            stats["D44"] += 1
            continue
        # D49: marko does not see a table that is the first block of a list item (markdown-it does): only that reading differs
        if dm == 0 and di and "D49" in chk.open_findings and "table(" in t["ti_in"] and "table(" not in t["tm_in"]:
            chk.known_finding("D49", m)
            stats["D49"] += 1
            continue
        # D44, second face: a loose list that opens an item writes its separator before the marker of the enclosing item; inside
        # "- > " that line ('  >') opens a quote in front of the list.  Neutralisation: without the prefix-only lines that directly
        # precede a marker line the output reads like the source (up to tightness)
        if "D44" in chk.open_findings and d44_first_shape(project.parse_marko(m["src"]), any_enclosing=True):
            import re as _re
            ls = m["out"].split("\n")
            keep = [l for j, l in enumerate(ls) if not (l.strip(" >") == "" and j + 1 < len(ls) and _re.match(r"[ >]*(?:[-*+]|\d+[.)]) ", ls[j + 1]))]
            loose = lambda f: [x.replace(":tight(", ":loose(") for x in f]  # noqa: E731
            try:
                if loose(project.flat(project.parse_marko("\n".join(keep)))) == loose(a):
                    chk.known_finding("D44", m)
                    stats["D44"] += 1
                    continue
            except BaseException:  # noqa: BLE001
                pass
        from harness import corpus as _corpus
        if "D57" in chk.open_findings and _corpus.d57_trigger(m["src"]) and dm:
            chk.known_finding("D57", m)
            stats["D57"] = stats.get("D57", 0) + 1
            continue
        stats["failing"] += 1
        chk.violation("SameDocument(marko)" if dm else "SameDocument(markdown-it)",
                      dict(m, first_diff_marko=dm, first_diff_mdit=di, marko_in=a[max(0, dm - 2): dm + 2], marko_out=b[max(0, dm - 2): dm + 2]))
    chk.notes["family_C"] = dict(cases=len(traces), **stats)


def variants(toks):
    """derived documents outside the model's alphabet: ordered lists, alerts, footnote definitions (verdict only, no machine)"""
    out = []
    if any(t in ("Lt(", "Ll(") for t in toks):
        out.append(tuple({"Lt(": "Ot(", "Ll(": "Ol("}.get(t, t) for t in toks))
    if "Q(" in toks:
        i = toks.index("Q(")
        out.append(tuple(toks[:i]) + ("A(",) + tuple(toks[i + 1:]))
    if len(toks) <= 6 and toks[0] in ("P", "C", "Lt(", "Ll(", "Q("):
        out.append(("F(",) + tuple(toks) + (")",))
    return out


def eval_v(job):
    toks, opts = job
    x = docgen.src(list(toks))
    if "F(" in toks:
        x = "ref[^1]\n\n" + x
    r = docs.eval_text(x, opts)
    r.update(toks=list(toks), src=x, opts=opts)
    r.pop("mdit_tree_in", None)
    return r


def run_family_v(chk: Check, tier: str, keys) -> None:
    jobs = []
    seen = set()
    for key in keys:
        for v in variants(list(key)):
            if v not in seen:
                seen.add(v)
                jobs.append((v, OPTS_S[0]))
    if tier == "quick":
        jobs = [j for k, j in enumerate(jobs) if (k + chk.seed) % 3 == 0]
    traces, metas = [], {}
    for tid, (job, r) in enumerate(zip(jobs, pmap(eval_v, jobs, chunksize=100)), 1):
        chk.evaluations += 1
        if "exc" in r:
            chk.violation("NoException", dict(src=r["src"], opts=r["opts"], exc=r["exc"]))
            continue
        traces.append(docs.trace_of(tid, "V", r))
        metas[tid] = dict(fam="S+", toks=r["toks"], src=r["src"], opts=r["opts"], out=r["out1"])
        chk.nontriv(("V", tuple(r["toks"])))
    reports, gen, dist = tlc.validate_traces("DocTrace", traces, cfg=docs.DOC_TRACE_CFG, timeout=3000)
    chk.states += dist
    chk.transitions += gen
    chk.traces += len(traces)
    stats = dict(docs=len(traces), failing=0, D31=0)
    for t in traces:
        _, id_, _acc, dm, di, _idem, _rt, _pfx, _hz = reports[t["id"]]
        if dm or di:
            stats["failing"] += 1
            m = metas[id_]
            a, b = t["tm_in"], t["tm_out"]
            only_loosened = len(a) == len(b) and all(x == y or (x.startswith("list:") and x.replace(":tight(", ":loose(") == y) for x, y in zip(a, b))
            base = [{"Ot(": "Lt(", "Ol(": "Ll(", "A(": "Q(", "F(": "I("}.get(q, q) for q in m["toks"]]
            if only_loosened and docs.heading_in_tight_item(base) and "D31" in chk.open_findings:
                chk.known_finding("D31", m)
                stats["D31"] += 1
                continue
            # D44 (variants of the shapes the deep model instance generates): the finding's own trigger -- the source has the shape and the
            # trees differ by list tightness tight -> loose only
            if only_loosened and "D44" in chk.open_findings and _d44_any(m["src"]):
                chk.known_finding("D44", m)
                stats["D44"] = stats.get("D44", 0) + 1
                continue
            chk.violation("SameDocument(marko)" if dm else "SameDocument(markdown-it)",
                          dict(m, first_diff_marko=dm, marko_in=a[max(0, dm - 2): dm + 2], marko_out=b[max(0, dm - 2): dm + 2]))
    chk.notes["family_S_plus"] = stats


def eval_r(job):
    name, x, opts = job
    r = docs.eval_text(x, opts)
    r.update(src=x, opts=opts, doc=name)
    r.pop("mdit_tree_in", None)
    return r


def run_family_r(chk: Check, tier: str) -> None:
    """the construct-rich corpus under several widths and both wrap modes (typography and cleanups off, list spacing preserve)"""
    from harness import corpus
    widths = (88, 30, 0) if tier == "quick" else (88, 60, 40, 30, 20, 12, 0, -1)
    # the 'tags' document is C06's subject: flowmark deliberately re-separates a list from the tag lines that enclose it
    jobs = [(n, x, dict(width=w, semantic=sem, cleanups=False)) for n, x in corpus.RICH + corpus.FINDING_DOCS if n != "tags" for w in widths for sem in (False, True)]
    traces, metas = [], {}
    for tid, (job, r) in enumerate(zip(jobs, pmap(eval_r, jobs, chunksize=10)), 1):
        chk.evaluations += 1
        if "exc" in r:
            chk.violation("NoException", dict(doc=job[0], opts=job[2], exc=r["exc"]))
            continue
        traces.append(docs.trace_of(tid, "R", r))
        metas[tid] = dict(fam="R", doc=job[0], src=r["src"], opts=r["opts"], out=r["out1"])
        chk.nontriv(("R", job[0], docs.dumps(job[2])))
    reports, gen, dist = tlc.validate_traces("DocTrace", traces, cfg=docs.DOC_TRACE_CFG, timeout=3000)
    chk.states += dist
    chk.transitions += gen
    chk.traces += len(traces)
    bad = {}
    for t in traces:
        _, id_, _acc, dm, di, _idem, _rt, _pfx, _hz = reports[t["id"]]
        if dm or di:
            m = metas[id_]
            bad[m["doc"]] = bad.get(m["doc"], 0) + 1
            from harness import corpus as _corpus
            if "D56" in chk.open_findings and _corpus.d56_trigger(m["src"]) and not any(s.startswith("fndef:1(") for s in t["tm_in"]) \
                    and any(s.startswith("fndef:1(") for s in t["tm_out"]):
                chk.known_finding("D56", m)
                continue
            if "D57" in chk.open_findings and _corpus.d57_trigger(m["src"]):
                chk.known_finding("D57", m)
                continue
            a, b = (t["tm_in"], t["tm_out"]) if dm else (t["ti_in"], t["ti_out"])
            d = dm or di
            chk.violation("SameDocument(marko)" if dm else "SameDocument(markdown-it)",
                          dict(m, first_diff=d, tree_in=a[max(0, d - 2): d + 2], tree_out=b[max(0, d - 2): d + 2]))
    chk.notes["family_R"] = dict(cases=len(traces), failing_by_doc=bad)


def run_family_t(chk: Check, tier: str) -> None:
    from harness import sentence
    from harness.props import c05
    cases = t_cases(tier)
    results = pmap(eval_t, cases, chunksize=100)
    dtr, wtr, str_, metas = [], [], [], {}
    tid = 0
    for case, r in zip(cases, results):
        chk.evaluations += 1
        if "exc" in r:
            chk.violation("NoException", dict(src=r["src"], opts=r["opts"], exc=r["exc"]))
            continue
        tid += 1
        a = r["abs"]
        toks = r["toks"]
        kinds = [kind_of(t) for t in toks]
        first = []
        if a and a["ok"]:
            for line in a["out"]:
                k = kinds[line[0]["w"] - 1]
                first.append(dict(k=k if k in ("h", "x") else ("h" if k == "n" else "p"), e=line[0]["e"]))
        dtr.append(docs.trace_of(tid, "T", r, first=first))
        metas[tid] = dict(fam="T", container=r["cname"], src=r["src"], opts=r["opts"], out=r["out1"], words=toks, kinds=kinds,
                          parsed=bool(a and a["ok"]), para=r.get("para"))
        if a and a["ok"]:
            esc_x = D1_FIXED
            words = [dict(k=("h" if k in ("h", "n") or (k == "x" and esc_x) else "s" if k == "s" else "p"), n=len(t)) for k, t in zip(kinds, toks)]
            if r["mode"] == "fill":
                wtr.append(c05._mk_trace(tid, words, r["opts"]["width"], len(r["ii"]), len(r["si"]), True, a))
            else:
                str_.append(dict(id=tid, kind="single", words=words, width=r["opts"]["width"], minlen=20, ii=len(r["ii"]), si=len(r["si"]),
                                 md=True, ok=True, out=a["out"], steps=[], ind=a["ind"]))
            if len(a["out"]) > 1:
                chk.nontriv(("T", tid))
    reports, gen, dist = tlc.validate_traces("DocTrace", dtr, cfg=docs.DOC_TRACE_CFG, timeout=3000)
    wrep, g2, d2 = tlc.validate_traces("WrapTrace", wtr, cfg=c05.TRACE_CFG, timeout=3000)
    srep, g3, d3 = tlc.validate_traces("SentenceTrace", str_, cfg=sentence.TRACE_CFG, timeout=3000)
    chk.states += dist + d2 + d3
    chk.transitions += gen + g2 + g3
    chk.traces += len(dtr)
    stats = dict(ok=0, D1=0, D2=0, D21=0, unparsed=0)
    for t in dtr:
        _, id_, _acc, dm, di, idem, _rt, _pfx, hazard_ok = reports[t["id"]]
        m = metas[id_]
        acc = (wrep[id_][2] if id_ in wrep else srep[id_][2] if id_ in srep else False)
        if dm == 0 and di == 0:
            stats["ok"] += 1
            if m["parsed"] and not acc:
                chk.drift_note(dict(m, why="paragraph lines differ from the wrapper machine"))
            continue
        info = dict(m, first_diff_marko=dm, first_diff_mdit=di, hazard_ok=hazard_ok,
                    marko_in=t["tm_in"][max(0, dm - 2): dm + 2], marko_out=t["tm_out"][max(0, dm - 2): dm + 2])
        fid = None
        if acc and m["parsed"]:
            lines_first = t["first"]
            para = m["para"] or []
            if any(f["k"] == "x" and not f["e"] for f in lines_first[1:]) and not D1_FIXED:
                fid = "D1"
            elif any(f["k"] in ("h", "x") and not f["e"] for f in lines_first[1:]) and m["opts"]["semantic"]:
                fid = "D21"
            elif any(l.endswith(" \\") or l.strip(" >") == "\\" for l in para[:-1]):
                fid = "D2"
        if fid and fid in chk.open_findings:
            chk.known_finding(fid, info)
            stats[fid] += 1
        else:
            chk.violation("SameDocument(marko)" if dm else "SameDocument(markdown-it)", info)
    chk.notes["family_T"] = stats
    for id_ in list(metas)[:: max(1, len(metas) // 3)][:3]:
        chk.sample({k: metas[id_][k] for k in ("fam", "container", "src", "opts", "out")})


def _real(x):
    import harness.docgen as dg
    try:
        return dg.real_toks(x)
    except BaseException:  # noqa: BLE001
        return None


def replay(path: str) -> int:
    v = json.loads(open(path).read())
    print(json.dumps(v, indent=1))
    c = v["case"]
    if "src" in c:
        print(docs.eval_text(c["src"], c["opts"])["out1"])
    return 0
