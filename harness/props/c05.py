"""C05 — wrapping is lossless, width-bounded and maximal.

Leg A: TLC checks the implementation-shaped machine spec/Wrap.tla exhaustively (small constants) against
       Lossless / NoEmptyLine / OneLine / EscapeExact and Bounded / Maximal with the D13 trigger carved out,
       and dumps every behaviour.
Leg B: every dumped behaviour is concretised and driven through the real wrap_paragraph_lines,
       wrap_paragraph, line_wrap_to_width (and reformat_text(plaintext), fill_text, per-paragraph
       triples captured through fill_markdown(line_wrapper=...)).
Leg C: the observed line structures are validated by TLC (spec/WrapTrace.tla): acceptance by the machine
       (drift) and the property-level predicates (verdicts)."""
from __future__ import annotations

import json

from harness import tlc, vocab
from harness.core import Check
from harness.par import pmap

TIERS = {
    "quick": dict(MaxWords=3, Lens={1, 2, 3}, Kinds={"h", "n", "a"}, Widths={0, 1, 2, 3, 4, 5, 6, 8}, Offs={0, 2, 3},
                  Mds={True, False}),
    # (4 words x 9 word types x 9 widths x 3 x 3 offsets x 2 = 1.2 M behaviours, explored one width at a time: all at once needed 19 GB)
    "thorough": dict(MaxWords=4, Lens={1, 2, 4}, Kinds={"h", "n", "a"}, Widths={0, 1, 2, 3, 4, 5, 6, 8, 12},
                     Offs={0, 2, 3}, Mds={True, False}),
}
MODEL_INVS = ["Lossless", "NoEmptyLine", "OneLine", "EscapeExact", "BoundedK", "MaximalK", "Bounded13",
              "Maximal13", "Dump"]


def _observe(case):
    """Run the real functions on one model behaviour; return list of observation dicts."""
    from flowmark.linewrapping.line_wrappers import line_wrap_to_width
    from flowmark.linewrapping.text_wrapping import wrap_paragraph, wrap_paragraph_lines
    cid, words, width, ic, so, md, mlines = case
    toks = vocab.concretise(words, variant=cid)
    text = " ".join(toks)
    ii, si = " " * ic, " " * so
    obs = []

    def add(fn, lines, indents_present):
        a = vocab.abstract_lines(toks, lines, ii, si, indents_present)
        a["fn"] = fn
        a["raw"] = lines
        obs.append(a)
    try:
        add("wrap_paragraph_lines",
            wrap_paragraph_lines(text, width, initial_column=ic, subsequent_offset=so, is_markdown=md), False)
    except Exception as e:  # an exception is an observation too
        obs.append({"fn": "wrap_paragraph_lines", "exc": repr(e)})
    try:
        r = wrap_paragraph(text, width, initial_indent=ii, subsequent_indent=si, is_markdown=md)
        add("wrap_paragraph", r.split("\n") if r else [], True)
    except Exception as e:
        obs.append({"fn": "wrap_paragraph", "exc": repr(e)})
    try:
        r = line_wrap_to_width(width=width, is_markdown=md)(text, ii, si)
        add("line_wrap_to_width", r.split("\n") if r else [], True)
    except Exception as e:
        obs.append({"fn": "line_wrap_to_width", "exc": repr(e)})
    if width > 0 and all(w["k"] == "p" for w in words):
        # display width: a len_fn that counts every character of a word twice must wrap like the same words written twice as long
        try:
            wide = " ".join(t * 2 for t in toks)
            r1 = wrap_paragraph_lines(wide, width, initial_column=ic, subsequent_offset=so, is_markdown=md)
            r2 = wrap_paragraph_lines(text, width, initial_column=ic, subsequent_offset=so, is_markdown=md, len_fn=lambda s_: 2 * len(s_) - s_.count(" "))
            if [len(l.split()) for l in r1] != [len(l.split()) for l in r2]:
                obs.append({"fn": "wrap_paragraph_lines(len_fn)", "exc": f"LenFnRespected: words counted twice as wide by len_fn wrap differently from words written twice as long: {r2!r} vs {r1!r}"})
        except Exception as e:
            obs.append({"fn": "wrap_paragraph_lines(len_fn)", "exc": repr(e)})
    if ic > 0 and cid % 3 == 0:
        # continuation of an existing line (initial_column > 0): the first line carries no indent text, whatever the number of lines;
        # its length counts from initial_column + len(initial_indent), as wrap_paragraph passes it on
        col = 5
        try:
            r = wrap_paragraph(text, width, initial_indent=ii, subsequent_indent=si, initial_column=col, is_markdown=md)
            a = vocab.abstract_lines(toks, r.split("\n") if r else [], "", si, True)
            if a["linelen"]:
                a["linelen"][0] += col + ic
            a["fn"], a["raw"], a["virtual_ic"] = "wrap_paragraph(initial_column=5)", r.split("\n") if r else [], col + ic
            obs.append(a)
        except Exception as e:
            obs.append({"fn": "wrap_paragraph(initial_column=5)", "exc": repr(e)})
    return cid, toks, obs


def _mk_trace(tid, words, width, ic, so, md, a, impl="wrap", maximal=True):
    return {"id": tid, "impl": impl, "words": words, "width": width, "ic": ic, "so": so, "md": md,
            "maximal": maximal, "ok": a["ok"], "out": a["out"], "linelen": a["linelen"], "ind": a["ind"]}


TRACE_CFG = tlc.cfg_text(spec="TraceSpec", constants=dict(MaxWords=0, Lens={1}, Kinds=set(), Widths={1}, Offs={0},
                                                         Mds={True}, DoDump=False), invariants=["Report"])


def failures(chk: Check, rep, meta, count_known=True):
    """Clauses of one trace report that fail and are not attributed to D13."""
    _, tid, acc, lossless, indent, spacing, bl, ml, oneline, esc_only, _nohaz, trig13 = rep
    fails = []
    if not lossless:
        fails.append(("Lossless", None))
    if not indent:
        fails.append(("Indent", None))
    if lossless and not spacing:
        fails.append(("Spacing", None))
    if not oneline:
        fails.append(("OneLine", None))
    if lossless and not esc_only:
        fails.append(("EscapeOnlyMarkers", None))
    for j, okj in enumerate(bl, 1):
        if not okj:
            fails.append(("Bounded", j))
    for j, okj in enumerate(ml, 1):
        if not okj:
            fails.append(("Maximal", j))
    residual = []
    for clause, j in fails:
        # D13: first word does not fit after the initial column; the column of line 1 is mis-tracked
        if clause in ("Bounded", "Maximal") and trig13 and j == 1 and "D13" in chk.open_findings:
            if count_known:
                chk.known_finding("D13", meta)
            continue
        residual.append((clause, j))
    return residual, bool(fails), acc


def judge(chk: Check, rep, meta, alt_rep=None) -> None:
    """Verdict rule for one observation. `alt_rep` (fill_text with an indent only) is the report of the same
    observation judged against width - len(subsequent_indent): finding D15 says fill_text wraps to that width;
    a failure is attributed to D15 only if the observation is perfect under that reading."""
    residual, any_fail, acc = failures(chk, rep, meta)
    if residual and alt_rep is not None and "D15" in chk.open_findings:
        alt_res, _, _ = failures(chk, alt_rep, meta, count_known=False)
        if not alt_res:
            chk.known_finding("D15", meta)
            return
    if residual:
        chk.violation("+".join(sorted({c for c, _ in residual})), dict(meta, failing=residual))
    elif not any_fail and meta.get("impl") == "wrap" and not acc:
        chk.drift_note(meta)


def _fill_text_cases(tier):
    """fill_text / reformat_text(plaintext) observations: (fn, words-per-paragraph, width, mode, extra)."""
    from itertools import product
    lens = [1, 2, 3] if tier == "quick" else [1, 2, 3, 5]
    widths = [0, 6, 9, 14] if tier == "quick" else [-1, 0, 5, 6, 9, 12, 14, 20]
    cases = []
    for n in range(1, 4 if tier == "quick" else 5):
        for ls in product(lens, repeat=n):
            for w in widths:
                cases.append((list(ls), w))
    return cases


def _observe_fill(case):
    from flowmark import reformat_text
    from flowmark.linewrapping.text_filling import Wrap, fill_text
    cid, lens, width = case
    words = [{"k": "p", "n": n} for n in lens]
    toks = vocab.concretise(words, variant=cid)
    text = " ".join(toks)
    obs = []
    # plaintext mode through the public API: two paragraphs (same words) separated by a blank line
    try:
        r = reformat_text(text + "\n\n" + text, width=width, plaintext=True)
        paras = r.split("\n\n")
        for p in paras:
            a = vocab.abstract_lines(toks, p.split("\n") if p else [], "", "", True)
            a.update(fn="reformat_text(plaintext)", ic=0, so=0, nparas=len(paras))
            obs.append(a)
    except Exception as e:
        obs.append({"fn": "reformat_text(plaintext)", "exc": repr(e)})
    for mode in (Wrap.WRAP, Wrap.WRAP_FULL, Wrap.WRAP_INDENT, Wrap.HANGING_INDENT, Wrap.MARKDOWN_ITEM):
        for extra in ("", "  "):
            ii = extra + mode.initial_indent
            si = extra + mode.subsequent_indent
            try:
                r = fill_text(text, mode, width=width, extra_indent=extra)
                a = vocab.abstract_lines(toks, r.split("\n") if r else [], ii, si, True)
                a.update(fn=f"fill_text({mode.name},extra={len(extra)})", ic=len(ii), so=len(si))
                obs.append(a)
            except Exception as e:
                obs.append({"fn": f"fill_text({mode.name})", "exc": repr(e)})
    # the first line may start at a column > 0 (text appended after a label): plain WRAP, no indents, so that D15 is not in play
    for col in (3, 7):
        try:
            r = fill_text(text, Wrap.WRAP, width=width, initial_column=col)
            a = vocab.abstract_lines(toks, r.split("\n") if r else [], "", "", True)
            if a["linelen"]:
                a["linelen"][0] += col              # the first line starts at column `col` without any indent text
            a.update(fn=f"fill_text(WRAP,initial_column={col})", ic=col, so=0, virtual_ic=True)
            obs.append(a)
        except Exception as e:
            obs.append({"fn": f"fill_text(WRAP,initial_column={col})", "exc": repr(e)})
    return cid, words, width, toks, obs


CONTAINERS = [  # (name, first-line prefix, continuation prefix) as *source* text
    ("top", "", ""), ("bullet", "- ", "  "), ("quote", "> ", "> "), ("ordered", "1. ", "   "),
    ("bullet>quote", "- > ", "  > "), ("quote>bullet", "> - ", ">   "), ("footnote", "[^1]: ", "    "),
    ("nested", "- a\n  - ", "    "), ("alert", "> [!NOTE]\n> ", "> "), ("ordered10", "10. ", "    "),
]


def _observe_doc(case):
    """Per-paragraph (text, ii, si, result) triples captured through fill_markdown(line_wrapper=...)."""
    from flowmark.linewrapping.line_wrappers import line_wrap_to_width
    from flowmark.linewrapping.markdown_filling import fill_markdown
    cid, cname, first, cont, words, width = case
    toks = vocab.concretise(words, variant=cid)
    text = " ".join(toks)
    src = first + text + "\n"
    if cname == "footnote":
        src = "ref[^1]\n\n" + src
    rec = []
    base = line_wrap_to_width(width=width, is_markdown=True)

    def recorder(t, ii, si):
        r = base(t, ii, si)
        rec.append((t, ii, si, r))
        return r
    try:
        fill_markdown(src, width=width, semantic=False, line_wrapper=recorder)
    except Exception as e:
        return cid, words, width, toks, cname, [{"fn": "fill_markdown", "exc": repr(e)}]
    obs = []
    for t, ii, si, r in rec:
        if t != text:
            continue
        a = vocab.abstract_lines(toks, r.split("\n") if r else [], ii, si, True)
        a.update(fn=f"fill_markdown[{cname}]", ic=len(ii), so=len(si), ii=ii, si=si, raw=r)
        obs.append(a)
    return cid, words, width, toks, cname, obs


# ---------------- hard-break and tag-delimited segments (every width incl. <= 0, both wrappers, and end to end) ----------------
SEG_CONT = [("top", "", ""), ("bullet", "- ", "  "), ("quote", "> ", "> "), ("ordered", "1. ", "   ")]


def _seg_cases(tier):
    from itertools import product
    cases = []
    n = 0
    lens = (2, 4)
    widths = (-1, 0, 6, 40) if tier == "quick" else (-7, -1, 0, 5, 6, 9, 12, 40)
    for nseg in (2, 3):
        for wc in product((1, 2, 3) if tier == "thorough" else (1, 3), repeat=nseg):
            for seps in product(("\\\n", "  \n"), repeat=nseg - 1):
                for cname, first, cont in SEG_CONT:
                    for w in widths:
                        segs = [[dict(k="p", n=lens[(n + i + j) % 2]) for j in range(c)] for i, c in enumerate(wc)]
                        cases.append((n, "hard", segs, list(seps), cname, first, cont, w))
                        n += 1
    for body in (1, 2, 3):
        for cname, first, cont in SEG_CONT[:1]:
            for w in widths:
                cases.append((n, "tag", [[dict(k="p", n=lens[(n + j) % 2]) for j in range(body)]], [], cname, first, cont, w))
                n += 1
    return cases


def _groups(lines, nseg):
    """split output lines into hard-break groups: a group ends with a line that ends in a backslash"""
    groups, cur = [], []
    for l in lines:
        if l.endswith("\\"):
            cur.append(l[:-1])
            groups.append(cur)
            cur = []
        else:
            cur.append(l)
    groups.append(cur)
    return groups


def _observe_segs(case):
    from flowmark import reformat_text
    from flowmark.linewrapping.line_wrappers import line_wrap_by_sentence, line_wrap_to_width
    cid, kind, segs, seps, cname, first, cont, width = case
    toks = [vocab.concretise(sg, variant=cid + i) for i, sg in enumerate(segs)]
    obs = []
    if kind == "hard":
        text = ""
        src = first
        for i, tk in enumerate(toks):
            text += " ".join(tk) + (seps[i] if i < len(seps) else "")
            src += " ".join(tk) + (seps[i] + cont if i < len(seps) else "\n")
        expect = toks
    else:
        text = "{% blk %}\n" + " ".join(toks[0]) + "\n{% /blk %}"
        src = text + "\n"
        expect = [["{% blk %}"], toks[0], ["{% /blk %}"]]
    ii, si = first, cont
    runs = [("line_wrap_to_width", "fill", lambda: line_wrap_to_width(width=width, is_markdown=True)(text, ii, si)),
            ("line_wrap_by_sentence", "sem", lambda: line_wrap_by_sentence(width=width, is_markdown=True)(text, ii, si)),
            ("reformat_text(fill)", "fill", lambda: reformat_text(src, width=width, semantic=False).rstrip("\n")),
            ("reformat_text(semantic)", "sem", lambda: reformat_text(src, width=width, semantic=True).rstrip("\n"))]
    for fn, mode, thunk in runs:
        try:
            r = thunk()
        except Exception as e:  # noqa: BLE001
            obs.append(dict(fn=fn, exc=repr(e)))
            continue
        lines = r.split("\n")
        if kind == "hard":
            groups = _groups(lines, len(expect))
        else:
            # tag block: the tag lines are segments of their own
            groups, cur = [], []
            for l in lines:
                if l.strip() in ("{% blk %}", "{% /blk %}"):
                    if cur:
                        groups.append(cur)
                    groups.append([l])
                    cur = []
                else:
                    cur.append(l)
            if cur:
                groups.append(cur)
        o = dict(fn=fn, mode=mode, raw=r, ngroups=len(groups), nseg=len(expect), groups=[])
        if len(groups) == len(expect):
            for gi, (g, tk) in enumerate(zip(groups, expect)):
                a = vocab.abstract_lines(tk, g, ii if gi == 0 else si, si, True)
                a["ic"] = len(ii if gi == 0 else si)
                a["so"] = len(si)
                a["words"] = segs[gi] if kind == "hard" else [dict(k="p", n=len(t)) for t in tk]
                o["groups"].append(a)
        obs.append(o)
    return case, text, src, obs


def run(tier: str) -> int:
    chk = Check("C05", tier, "model_checking")
    chk.rule = ("cases = every behaviour of spec/Wrap.tla within the tier's constants (word kind/length vectors x "
                "width x initial column x subsequent offset x markdown flag) plus fill_text/plaintext and per-container "
                "paragraph families; non-trivial = distinct observation with at least one line break or an escape")
    chk.assumptions = ["projection harness/vocab.py (concretise / abstract_lines) is trusted",
                       "TLC 1.8.0 evaluates the predicates of spec/WrapTrace.tla correctly"]
    # ---- legs A, B, C: one TLC instance per width in the thorough tier (1.06 M behaviours at once needed 19 GB) ----
    allw = sorted(TIERS[tier]["Widths"])
    wgroups = [set(allw)] if tier == "quick" else [{w} for w in allw]
    taken = {}
    traces, meta, alt = [], {}, {}
    tid = 0
    sampled = []
    seg_meta = {}

    def flush():
        """leg C for what has been collected so far (keeps the memory of the thorough tier bounded)"""
        if not traces:
            return
        reports, gen, dist = tlc.validate_traces("WrapTrace", traces, cfg=TRACE_CFG, timeout=1500)
        chk.states += dist
        chk.transitions += gen
        chk.traces += len(traces)
        for t in traces:
            if t["id"] in meta:
                judge(chk, reports[t["id"]], meta[t["id"]], reports.get(alt.get(t["id"])))
            elif t["id"] in seg_meta:
                m = seg_meta[t["id"]]
                residual, _, _ = failures(chk, reports[t["id"]], m)
                if m["mode"] == "sem" and t["width"] > 0:
                    residual = [(c, j) for c, j in residual if c not in ("Bounded", "Maximal")]
                if residual:
                    chk.violation("+".join(sorted({c for c, _ in residual})), dict(m, failing=residual))
        if len(sampled) < 5:
            for t in [t for t in traces if t["id"] in meta][:: max(1, len(traces) // 5)][: 5 - len(sampled)]:
                sampled.append({"trace": {k: t[k] for k in ("words", "width", "ic", "so", "md", "out")}, "fn": meta[t["id"]]["fn"], "text": meta[t["id"]]["text"]})
        traces.clear()
        meta.clear()
        alt.clear()
        seg_meta.clear()
    CH = 200000
    cid0 = 0
    for k_ in ("model_behaviours", "model_bounded_violations_all_D13", "model_maximal_violations_all_D13"):
        chk.notes[k_] = 0
    for ws in wgroups:
        res = tlc.run_tlc("Wrap", tlc.cfg_text(constants=dict(TIERS[tier], Widths=ws, DoDump=True), invariants=MODEL_INVS), coverage=True, timeout=1500)
        chk.add_tlc(res)
        for act in ("Place", "Break", "Finish", "NoWrap"):
            taken[act] = taken.get(act, 0) + res.coverage.get(act, (0, 0))[0]
        behaviours = [r for r in res.reports if r and r[0] == "B"]
        del res
        chk.notes["model_behaviours"] += len(behaviours)
        chk.notes["model_bounded_violations_all_D13"] += sum(1 for b in behaviours if not b[7])
        chk.notes["model_maximal_violations_all_D13"] += sum(1 for b in behaviours if not b[8])
        behaviours.sort(key=lambda b: json.dumps(b))
        # ---- leg B ----
        cases = [(cid0 + cid, b[1], b[2], b[3], b[4], b[5], b[6]) for cid, b in enumerate(behaviours)]
        del behaviours
        # negative widths cannot be written in a TLC cfg file: every width-0 behaviour is also observed at width -1 and -7
        # (same machine behaviour: "width <= 0 = no wrapping"); the trace carries the negative width
        twins = [(cid0 + len(cases) + k, c[1], wneg, c[3], c[4], c[5], c[6]) for k, (c, wneg) in
                 enumerate((c, wneg) for c in cases if c[2] == 0 for wneg in (-1, -7))]
        cases += twins
        cid0 += len(cases)
        for lo in range(0, len(cases), CH):
            part = cases[lo: lo + CH]
            for (cid, words, width, ic, so, md, mlines), (_, toks, obs) in zip(part, pmap(_observe, part)):
                seen = {}
                for a in obs:
                    chk.evaluations += 1
                    if "exc" in a:
                        chk.violation("NoException", dict(fn=a["fn"], exc=a["exc"], text=" ".join(toks), width=width, ic=ic, so=so))
                        continue
                    key = json.dumps([a["ok"], a["out"], a["linelen"], a["ind"], a.get("virtual_ic")])
                    if key in seen:
                        meta[seen[key]]["fn"] += "," + a["fn"]
                        continue
                    tid += 1
                    seen[key] = tid
                    traces.append(_mk_trace(tid, words, width, a.get("virtual_ic", ic), so, md, a, impl="wrap" if "virtual_ic" not in a else "none"))
                    meta[tid] = dict(fn=a["fn"], impl="wrap" if "virtual_ic" not in a else "none", text=" ".join(toks), width=width, ic=a.get("virtual_ic", ic), so=so, md=md,
                                     output=a["raw"], model_lines=mlines)
                    if len(a["out"]) > 1 or any(t["e"] for l in a["out"] for t in l):
                        chk.nontriv(("w", cid, key))
            flush()
        del cases
    for act in ("Place", "Break", "Finish", "NoWrap"):
        if taken.get(act, 0) == 0:
            raise tlc.TlcError(f"vacuous model: action {act} never taken")
    # ---- fill_text / plaintext family ----
    fcases = [(i, ls, w) for i, (ls, w) in enumerate(_fill_text_cases(tier))]
    for cid, words, width, toks, obs in pmap(_observe_fill, fcases):
        for a in obs:
            chk.evaluations += 1
            if "exc" in a:
                chk.violation("NoException", dict(fn=a["fn"], exc=a["exc"], text=" ".join(toks), width=width))
                continue
            if a["fn"].startswith("reformat_text") and a.get("nparas") != 2:
                chk.violation("Lossless", dict(fn=a["fn"], text=" ".join(toks), width=width, why="paragraph count changed"))
                continue
            tid += 1
            traces.append(_mk_trace(tid, words, width, a["ic"], a["so"], False, a))
            meta[tid] = dict(fn=a["fn"], impl="wrap" if a["so"] == 0 and a["ic"] == 0 else "fill_text", text=" ".join(toks),
                             width=width, ic=a["ic"], so=a["so"], md=False)
            if a["fn"].startswith("fill_text") and a["so"] > 0:
                tid += 1
                traces.append(_mk_trace(tid, words, width - a["so"], a["ic"], a["so"], False, a))
                alt[tid - 1] = tid
            if len(a["out"]) > 1:
                chk.nontriv(("f", cid, a["fn"]))
    # ---- per-paragraph triples at every container nesting ----
    from itertools import product
    dlens = [1, 3] if tier == "quick" else [1, 2, 4]
    dwidths = [8, 12, 16] if tier == "quick" else [6, 8, 10, 12, 16, 20]
    dcases = []
    n = 0
    for cname, first, cont in CONTAINERS:
        for nw in (3, 4):
            for ls in product(dlens, repeat=nw - 1):
                for hz in (None, 1, 2):
                    words = [{"k": "p", "n": 2}] + [{"k": "p", "n": l} for l in ls]
                    if hz is not None:
                        if hz >= len(words):
                            continue
                        words[hz] = {"k": "h", "n": 1} if (n % 2) else {"k": "n", "n": 2}
                    for w in dwidths:
                        dcases.append((n, cname, first, cont, words, w))
                        n += 1
    got_containers = set()
    for cid, words, width, toks, cname, obs in pmap(_observe_doc, dcases):
        if not obs:
            chk.discarded += 1
        for a in obs:
            chk.evaluations += 1
            if "exc" in a:
                chk.violation("NoException", dict(fn=a["fn"], exc=a["exc"], text=" ".join(toks), width=width))
                continue
            got_containers.add(cname)
            tid += 1
            traces.append(_mk_trace(tid, words, width, a["ic"], a["so"], True, a))
            meta[tid] = dict(fn=a["fn"], impl="wrap", text=" ".join(toks), width=width, ic=a["ic"], so=a["so"], md=True,
                             ii=a["ii"], si=a["si"], output=a["raw"])
            if len(a["out"]) > 1:
                chk.nontriv(("d", cid))
    chk.notes["containers_observed"] = sorted(got_containers)
    if len(got_containers) < len(CONTAINERS):
        raise tlc.TlcError(f"vacuous: containers without recorded paragraph: "
                           f"{sorted(set(c[0] for c in CONTAINERS) - got_containers)}")
    # ---- hard-break / tag-delimited segments: each segment is wrapped on its own (one WrapTrace trace per segment) ----
    for case, text, src, obs in pmap(_observe_segs, _seg_cases(tier), chunksize=50):
        cid, kind, segs, seps, cname, first, cont, width = case
        for o in obs:
            chk.evaluations += 1
            m = dict(fn=o.get("fn"), family="segments:" + kind, text=text, src=src, container=cname, width=width, output=o.get("raw"))
            if "exc" in o:
                chk.violation("NoException", dict(m, exc=o["exc"]))
                continue
            if o["ngroups"] != o["nseg"]:
                chk.violation("SegmentsKept", dict(m, why=f"{o['nseg']} hard-break / tag-delimited segments in, {o['ngroups']} out"))
                continue
            chk.nontriv(("seg", cid, o["fn"]))
            for gi, a in enumerate(o["groups"]):
                tid += 1
                # sentence mode at width > 0 is C11's (and D14's) business: here only the width-independent clauses are judged
                traces.append(_mk_trace(tid, a["words"], width, a["ic"], a["so"], True, a, impl="wrap" if o["mode"] == "fill" else "none",
                                        maximal=o["mode"] == "fill"))
                seg_meta[tid] = dict(m, segment=gi, mode=o["mode"])
    # ---- sentence wrapper: Lossless / Indent / Bounded / OneLine / escapes (P1, P2, Local are C11's) ----
    from harness import sentence
    sconsts = dict(sentence.TIERS[tier], DoDiff=False)
    if tier == "quick":
        sconsts.update(MaxWords=3)
    flush()          # leg C for the families collected so far, before the (large) sentence family forks its workers

    def on_sentence(smeta, rep, t):
        chk.evaluations += 1
        r = sentence.split_report(rep)
        fails = []
        if not r["lossless"]:
            fails.append(("Lossless", None))
        else:
            if not all(t["ind"]):
                fails.append(("Indent", None))
            if not r["oneline"]:
                fails.append(("OneLine", None))
            if not r["esc_only"]:
                fails.append(("EscapeOnlyMarkers", None))
            fails += [("Bounded", j) for j, okj in enumerate(r["bounded"], 1) if not okj]
        residual = []
        for clause, j in fails:
            if clause == "Bounded" and r["acc"]:
                if r["t14"][j - 1] and "D14" in chk.open_findings:
                    chk.known_finding("D14", smeta)
                    continue
                if r["t13"][j - 1] and "D13" in chk.open_findings:
                    chk.known_finding("D13", smeta)
                    continue
            residual.append((clause, j))
        if residual:
            chk.violation("+".join(sorted({c for c, _ in residual})), dict(smeta, failing=residual))
        if smeta["nlines"] > 1:
            chk.nontriv(("s", json.dumps([t["words"], t["width"], t["minlen"], t["ii"], t["si"], t["md"]])))
    sdata = sentence.collect(tier, chk.seed, consts=sconsts, pairs=False, on_item=on_sentence)
    chk.states += sdata["states"]
    chk.transitions += sdata["transitions"]
    chk.traces += sdata["traces"]
    for e in sdata["errors"]:
        chk.violation("NoException", e)
    # ---- leg C (remaining families) ----
    flush()
    for smp in sampled:
        chk.sample(smp)
    chk.exhaustive = True
    chk.explanation = (f"TLC explored every behaviour of Wrap.tla for constants {sorted((k, sorted(v) if isinstance(v, set) else v) for k, v in TIERS[tier].items())}; "
                       "each was replayed into the real functions and the observations validated by WrapTrace.tla")
    return chk.finish()


def replay(path: str) -> int:
    v = json.loads(open(path).read())
    print(json.dumps(v, indent=1))
    c = v["case"]
    from flowmark.linewrapping.text_wrapping import wrap_paragraph
    if "text" in c and "width" in c:
        print(repr(wrap_paragraph(c["text"], c["width"], initial_indent=" " * c.get("ic", 0),
                                  subsequent_indent=" " * c.get("so", 0), is_markdown=c.get("md", False))))
    return 0
