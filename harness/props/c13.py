"""C13 — each formatting call is isolated from other calls.

Leg A: TLC explores spec/Isolation.tla (threads x steps, preemption-bounded scheduler, taint through shared
       cells): Isolated holds for the as-is sharing structure (no shared mutable cell) under every schedule, and
       the same model with a shared cell (module-level renderer / cached state mutants) yields a leaking
       interleaving -- the model has teeth.  Every complete schedule is exported.
Leg B: every exported schedule is executed against the real reformat_text under a cooperative deterministic
       scheduler (switching only at call events of flowmark/marko code), for several pairs/triples of
       leak-sensitive documents; seeded fine-grained schedules (a switch decision at every call event) on top;
       single-process histories: every ordered pair (and sampled triples) of leak-sensitive calls.
Leg C: spec/IsoTrace.tla validates each run: the executed schedule is a behaviour of Isolation!Spec, every result
       equals the solo result computed in a fresh interpreter (Isolated: the verdict), and object identities entered
       by two threads are counted (OwnObjects: diagnostic)."""
from __future__ import annotations

import hashlib
import itertools
import json
import multiprocessing as mp
import random

from harness import tlc
from harness.core import Check
from harness.par import pmap

DOCS = [
    "# A\n\n- one two three four five six seven eight nine ten\n- b\n\n> quote text here that is long enough to wrap around the width\n\n[x]: http://a.example/1\n\nsee [x] and [y][x]\n",
    "para one is here. And more text follows here.\n\n1. x\n   - y\n\n```\ncode\n```\n\n[^1]: foot one\n\nref[^1] [x]\n\n[x]: http://b.example/2 \"t\"\n",
    "[x]: http://c.example/3\n\n[x] differs here\n\n- [ ] task one\n- [x] task two\n",
    "text[^1] and[^2]\n\n[^1]: first note\n\n[^2]: second note that is rather long and needs wrapping at small widths\n",
    "> - quoted item\n>   continued text\n>\n> ## heading at end of quote",
    "- item\n\n  - nested ends inside list",
    "{% field %}\n- a\n- b\n{% /field %}\n\nText with {% tag %}{% /tag %} adjacent <!-- c --> tags.\n",
    "---\ntitle: \"x\"\n---\n\n**Bold heading**\n===\n\n\"quoted\" text... and 'more' here.\n",
    "| a | b |\n|---|:-:|\n| 1 | `c|d` |\n\n> [!NOTE]\n> alert body\n",
    "## **Bold**\n\nSentence one. Sentence two is longer than one. Three!\n\n* * *\n\nlast\\\nline\n",
    "1) first\n2) second\n\n10. ten\n11. eleven\n\n<div>inline html</div> and <span>x</span>\n",
    "intro text\n\n~~~python title\ndef f():\n    return 1\n~~~\n\nafter the tilde fence\n\n````md\n```\ninner\n```\n````\n",
    "Spaced {% a %} {% /a %} tags, <!-- x --> <!-- /x --> comments and {{ v }} {# c #} here; adjacent ones: {% b %}{% /b %} x.\n",
    "Only spaced {% a %} {% /a %} and <!-- x --> <!-- /x --> here.\n",
    # dense documents: most of the formatting time is spent in one construct, so that fine-grained interleavings of two such calls
    # meet inside it (per-construct hand-off state: fence info, table alignment, reference / footnote tables)
    "".join(f"p{i}\n\n```a{i}\ncode a{i}\n```\n\n" for i in range(8)),
    "".join(f"q{i}\n\n~~~~b{i} x\ncode b{i}\n~~~~\n\n" for i in range(8)),
    "".join(f"| h{i} | k |\n|:--|--:|\n| {i} | `c|d` |\n\n" for i in range(6)) + "".join(f"[r{i}]: http://a.example/{i}\n" for i in range(6)) + "\nsee " + " ".join(f"[r{i}]" for i in range(6)) + "\n",
    "".join(f"| g{i} |\n|:-:|\n| {i} |\n\n" for i in range(6)) + "".join(f"[r{i}]: http://b.example/{i} \"t\"\n" for i in range(6)) + "\nsee " + " ".join(f"[r{i}]" for i in range(6)) + " and" + "".join(f" n[^{i}]" for i in range(4)) + "\n\n" + "".join(f"[^{i}]: note {i}\n\n" for i in range(4)),
    "",
    # documents whose LAST block leaves renderer flags set (heading, definitions, list item, hard break) and documents whose FIRST block is
    # sensitive to such a flag (a definition followed by a blank line, a loose list, a quote with a loose list): a renderer that outlives a call
    # must not carry the flags over
    "intro text\n\n## trailing heading\n",
    "[first]: http://d.example/4\n\nSee [first] here.\n\n- a\n\n- b\n",
    "- loose a\n\n- loose b\n\ntext after\n\n[last]: http://e.example/5\n",
    "text[^z]\n\n[^z]: trailing footnote\n",
    "> - q one\n>\n> - q two\n\n# heading with break\\\nnext\n",
]
assert len(DOCS) == 24
EDGE = [2, 4, 19, 20, 21, 22, 23]        # every ordered pair of these (same options) is a history in every tier
DENSE_PAIRS = [(14, 15), (15, 14), (16, 17), (17, 16), (14, 17), (1, 11), (19, 20), (20, 19), (19, 2), (22, 21)]       # indices into DOCS
OPTS = [
    dict(width=20), dict(width=40, semantic=False), dict(width=0), dict(width=30, smartquotes=True, ellipses=True),
    dict(width=25, list_spacing="loose"), dict(width=25, list_spacing="tight", cleanups=False), dict(width=30, plaintext=True),
]


def calls(tier):
    cs = []
    for i, d in enumerate(DOCS):
        for j, o in enumerate(OPTS):
            if tier == "thorough" or (i + j) % 3 == 0 or j == 0:
                cs.append((i, j))
    return cs


def _fmt(call):
    from flowmark import reformat_text
    from flowmark.formats.flowmark_markdown import ListSpacing
    i, j = call
    o = dict(OPTS[j])
    if "list_spacing" in o:
        o["list_spacing"] = ListSpacing(o["list_spacing"])
    try:
        return reformat_text(DOCS[i], **o)
    except BaseException as e:  # noqa: BLE001
        return ("EXC", repr(e))


def _solo(call):
    """run in a spawned (fresh) interpreter"""
    return call, _fmt(call)


def dig(x) -> str:
    return hashlib.sha1(repr(x).encode()).hexdigest()[:10]


def _history(seq):
    """Execute a sequence of calls in this (already used) worker process; return results."""
    return [_fmt(c) for c in seq]


def _sched_run(job):
    """One scheduled multi-thread run in a worker process. job = (calls, nsteps, schedule, record)."""
    from harness.sched import Sched, count_events
    cs, nsteps, schedule, record = job
    fns = [(lambda c=c: _fmt(c)) for c in cs]
    for f in fns:
        f()                       # warm-up: lazy imports / caches make the first call in a process longer
    counts = [count_events(f) for f in fns]
    if nsteps == 0:               # fine-grained: one segment per call event
        nsteps = max(counts) or 1
        rnd = random.Random(schedule)
        base = []
        for t in range(len(cs)):
            base += [t] * nsteps
        rnd.shuffle(base)
        schedule = base
    s = Sched(fns, counts, nsteps, schedule, record_touches=record)
    res = s.run()
    touches = sorted({(t, o) for t, o, _ in s.touches})
    names = {}
    for t, o, n in s.touches:
        names[o] = n
    return res, s.executed, touches, names, counts


def run(tier: str) -> int:
    chk = Check("C13", tier, "model_checking")
    chk.rule = ("cases = every complete schedule of spec/Isolation.tla (2-3 threads x 5-6 segments, <= 2-3 preemptions) x pairs/triples "
                "of leak-sensitive (document, options) calls, seeded fine-grained schedules, and every ordered pair of calls as a "
                "single-process history; non-trivial = run with at least one context switch, or history of >= 2 different calls")
    chk.assumptions = ["the deterministic scheduler only switches at call events of code whose file lies under flowmark/ or marko/ "
                       "(function-call granularity, as the property states); C-level preemption inside regex/str calls is not explored",
                       "solo results come from freshly spawned interpreters"]
    cs = calls(tier)
    # ---- solo oracle in fresh interpreters ----
    ctx = mp.get_context("spawn")
    with ctx.Pool(8, maxtasksperchild=4) as pool:
        solo = dict(pool.map(_solo, cs, chunksize=2))
    chk.notes["solo_calls"] = len(solo)
    for c, r in solo.items():
        if isinstance(r, tuple):
            chk.violation("NoException(solo)", dict(call=c, exc=r[1]))
    # ---- leg A ----
    mconf = [(2, 5, 2), (3, 3, 2)] if tier == "quick" else [(2, 6, 3), (3, 4, 3)]
    schedules = {}
    for nth, nst, mp_ in mconf:
        cfg = tlc.cfg_text(constants=dict(NThreads=nth, NSteps=nst, MaxPreempt=mp_, SharedSteps=set(), DoDump=True),
                           invariants=["Isolated", "PreemptBound", "Dump"], view="view")
        r = tlc.run_tlc("Isolation", cfg, workers=4)
        chk.add_tlc(r)
        # NB: with VIEW the history variable is projected away; distinct complete schedules are recovered by
        # enumerating without the view in a second run (small)
        cfg2 = tlc.cfg_text(constants=dict(NThreads=nth, NSteps=nst, MaxPreempt=mp_, SharedSteps=set(), DoDump=True),
                            invariants=["Isolated", "Dump"])
        r2 = tlc.run_tlc("Isolation", cfg2, workers=4)
        chk.add_tlc(r2)
        schedules[(nth, nst, mp_)] = sorted({tuple(x[1]) for x in r2.reports if x and x[0] == "SCHED"})
        # teeth: a shared cell touched in step 2 must break Isolated
        try:
            tlc.run_tlc("Isolation", tlc.cfg_text(constants=dict(NThreads=nth, NSteps=nst, MaxPreempt=mp_, SharedSteps={2}, DoDump=False),
                                                  invariants=["Isolated"], view="view"), workers=2)
            raise tlc.TlcError("model sanity: a shared mutable cell does not violate Isolated")
        except tlc.TlcViolation:
            pass
    chk.notes["model_schedules"] = {str(k): len(v) for k, v in schedules.items()}
    # ---- leg B: schedules x call tuples ----
    rng = random.Random(chk.seed)
    jobs, jmeta = [], []
    for (nth, nst, mp_), scheds in schedules.items():
        tuples = [tuple(rng.sample(cs, nth)) for _ in range(4 if tier == "quick" else 12)]
        tuples.append(tuple(cs[:nth]))
        tuples.append(tuple([cs[0]] * nth))          # the same call concurrently with itself
        for tp in tuples:
            pick = scheds if (tier == "thorough" or len(scheds) <= 40) else rng.sample(scheds, 40)
            for sc in pick:
                jobs.append((list(tp), nst, [t - 1 for t in sc], len(jobs) % 10 == 0))
                jmeta.append(dict(kind="sched", nthreads=nth, nsteps=nst, maxpreempt=mp_, calls=list(tp), schedule=list(sc)))
    nfine = 40 if tier == "quick" else 400
    dense = [((a, 0), (b, 0)) for a, b in DENSE_PAIRS]
    for k in range(nfine + (60 if tier == "quick" else 600)):
        tp = tuple(rng.sample(cs, 2 if k % 3 else 3)) if k < nfine else dense[k % len(dense)]
        jobs.append((list(tp), 0, chk.seed * 100003 + k, False))
        jmeta.append(dict(kind="fine", calls=list(tp), rnd=chk.seed * 100003 + k))
    results = pmap(_sched_run, jobs, chunksize=8)
    traces, metas = {}, {}
    tid = 0
    for job, meta, (res, executed, touches, names, counts) in zip(jobs, jmeta, results):
        chk.evaluations += 1
        tid += 1
        meta = dict(meta, executed=executed[:60], counts=counts,
                    docs=[DOCS[c[0]][:60] for c in meta["calls"]], opts=[OPTS[c[1]] for c in meta["calls"]])
        want = [dig(solo[tuple(c)]) for c in meta["calls"]]
        got = [dig(r) for r in res]
        meta["mismatch"] = [i for i, (a, b) in enumerate(zip(got, want)) if a != b]
        if meta["mismatch"]:
            i = meta["mismatch"][0]
            meta["got"], meta["want"] = repr(res[i])[:400], repr(solo[tuple(meta["calls"][i])])[:400]
        omap = {}
        tl = [dict(t=t + 1, o=omap.setdefault(o, len(omap) + 1)) for t, o in touches][:400]
        key = (meta.get("nthreads", len(meta["calls"])), meta.get("nsteps", 0), meta.get("maxpreempt", 0)) if meta["kind"] == "sched" else ("hist",)
        tr = dict(id=tid, kind="sched" if meta["kind"] == "sched" else "hist", sched=[t + 1 for t in executed] if meta["kind"] == "sched" else [],
                  results=got, solo=want, touches=tl)
        traces.setdefault(key, []).append(tr)
        metas[tid] = meta
        if len(set(executed)) > 1:
            chk.nontriv(("s", tid))
        meta["shared_objects"] = sorted({names[o] for t, o in touches for t2, o2 in touches if o == o2 and t != t2})[:8] if job[3] else None
    # ---- histories ----
    pairs = list(itertools.product(cs, repeat=2))
    if tier == "quick":
        pairs = [p for k, p in enumerate(pairs) if (k + chk.seed) % 3 == 0]
    have = set(pairs)
    pairs += [((a, j), (b, j)) for a in EDGE for b in EDGE for j in (0, 3, 4) if (a, j) in solo and (b, j) in solo and ((a, j), (b, j)) not in have]
    triples = [tuple(rng.sample(cs, 3)) for _ in range(200 if tier == "quick" else 3000)]
    hists = [list(p) for p in pairs] + [list(t) for t in triples]
    for seq, res in zip(hists, pmap(_history, hists, chunksize=50)):
        chk.evaluations += 1
        tid += 1
        want = [dig(solo[tuple(c)]) for c in seq]
        got = [dig(r) for r in res]
        meta = dict(kind="hist", calls=seq, docs=[DOCS[c[0]][:60] for c in seq], opts=[OPTS[c[1]] for c in seq],
                    mismatch=[i for i, (a, b) in enumerate(zip(got, want)) if a != b])
        if meta["mismatch"]:
            i = meta["mismatch"][0]
            meta["got"], meta["want"] = repr(res[i])[:400], repr(solo[tuple(seq[i])])[:400]
        traces.setdefault(("hist",), []).append(dict(id=tid, kind="hist", sched=[], results=got, solo=want, touches=[]))
        metas[tid] = meta
        if len(set(map(tuple, seq))) > 1:
            chk.nontriv(("h", tid))
    # ---- leg C ----
    shared_seen = 0
    for key, trs in traces.items():
        if key == ("hist",):
            consts = dict(NThreads=1, NSteps=1, MaxPreempt=0, SharedSteps=set(), DoDump=False)
        else:
            consts = dict(NThreads=key[0], NSteps=key[1], MaxPreempt=key[2], SharedSteps=set(), DoDump=False)
        reports, gen, dist = tlc.validate_traces("IsoTrace", trs, cfg=tlc.cfg_text(spec="TraceSpec", constants=consts, invariants=["Report"]),
                                                 workers=8)
        chk.states += dist
        chk.transitions += gen
        chk.traces += len(trs)
        for t in trs:
            _, id_, acc, eq, nshared = reports[t["id"]]
            m = metas[id_]
            if not all(eq):
                chk.violation("Isolated", m)
            elif m["kind"] == "sched" and not acc:
                chk.drift_note(dict(m, why="executed schedule is not a behaviour of Isolation!Spec (event counts changed?)"))
            if nshared:
                shared_seen += 1
                chk.notes.setdefault("shared_object_classes", [])
                for n in (m.get("shared_objects") or []):
                    if n not in chk.notes["shared_object_classes"]:
                        chk.notes["shared_object_classes"].append(n)
    chk.notes["runs_with_objects_entered_by_two_threads"] = shared_seen
    for id_ in list(metas)[:: max(1, len(metas) // 5)][:5]:
        m = metas[id_]
        chk.sample({k: m.get(k) for k in ("kind", "calls", "schedule", "executed", "opts", "docs")})
    chk.exhaustive = False
    chk.explanation = ("all preemption-bounded schedules of the model replayed for sampled call tuples; ordered pairs of calls as histories "
                       "(all in thorough, a third in quick); fine-grained schedules are seeded random")
    return chk.finish()


def replay(path: str) -> int:
    v = json.loads(open(path).read())
    print(json.dumps(v, indent=1))
    return 0
