"""C15 — all entry points agree: CLI, file API and text API give the same bytes.

Leg A: TLC explores spec/EntryPoints.tla completely: every option point x every entry point flows
       argv -> Options -> reformat_files -> reformat_file -> reformat_text -> sink; SinkCorrect (what reaches the
       sink equals Expected(u, ep), with --auto = the preset) holds in every state; three re-wiring mutants of the
       model break it.  Every point is exported with its Expected record.
Leg B: every exported point is executed on the real code (cli.main in-process with cwd/stdin/stdout redirected,
       reformat_file, reformat_files, reformat_text; a seeded subset as real subprocesses) on a probe document
       that separates all option points.
Leg C: spec/EntryTrace.tla validates every observation: the output digest equals the digest of
       reformat_text(probe, **Expected), exit code 0, nothing else written; usage errors exit non-zero and write
       nothing; multi-file runs give each file its solo result."""
from __future__ import annotations

import hashlib
import io
import json
import os
import shutil
import subprocess
import sys
import tempfile

from harness import tlc
from harness.core import PY, REPO, Check
from harness.par import pmap

PROBE = ('# **Bold Title**\n\nThis is a "quoted" sentence that\'s fairly long and then it ends. The second sentence goes on... for a '
         "little while longer and then stops as well. Third one here!\n\n- tight one\n- tight two\n\n1. loose one\n\n2. loose two\n")
PROBE2 = ("## Other *doc*\n\nAnother 'single' paragraph... It has two sentences that are long enough to wrap somewhere around here.\n\n"
          "* a\n* b\n")


def dig(b) -> str:
    if isinstance(b, str):
        b = b.encode()
    return hashlib.sha1(b).hexdigest()[:12]


def flags(u) -> list[str]:
    f = ["-w", str(u["width"])]
    if u["plaintext"]:
        f.append("-p")
    if u["semantic"]:
        f.append("-s")
    if u["cleanups"]:
        f.append("-c")
    if u["smartquotes"]:
        f.append("--smartquotes")
    if u["ellipses"]:
        f.append("--ellipses")
    f += ["--list-spacing", u["ls"]]
    return f


def kwargs(u) -> dict:
    from flowmark.formats.flowmark_markdown import ListSpacing
    return dict(width=u["width"], plaintext=u["plaintext"], semantic=u["semantic"], cleanups=u["cleanups"],
                smartquotes=u["smartquotes"], ellipses=u["ellipses"], list_spacing=ListSpacing(u["ls"]))


def snapshot(d):
    out = {}
    for root, _, files in os.walk(d):
        for f in files:
            p = os.path.join(root, f)
            out[os.path.relpath(p, d)] = open(p, "rb").read()
    return out


def _cli_inproc(argv, stdin_text):
    from flowmark.cli import main
    old = sys.stdin, sys.stdout, sys.stderr
    sys.stdin, sys.stdout, sys.stderr = io.StringIO(stdin_text), io.StringIO(), io.StringIO()
    try:
        try:
            rc = main(argv)
        except SystemExit as e:
            rc = e.code if isinstance(e.code, int) else 1
        except BaseException as e:  # noqa: BLE001
            return 99, "", repr(e)
        return rc, sys.stdout.getvalue(), sys.stderr.getvalue()
    finally:
        sys.stdin, sys.stdout, sys.stderr = old


def _cli_subproc(argv, stdin_text, cwd):
    p = subprocess.run([PY, "-m", "flowmark.cli"] + argv, cwd=cwd, input=stdin_text.encode(), capture_output=True,
                       env=dict(os.environ, PYTHONPATH=f"{REPO}/src"), timeout=120)
    return p.returncode, p.stdout.decode(), p.stderr.decode()


def _execute(job):
    """Run one (entry point, option point). Returns dict(out, rc, fs_ok, side, err)."""
    from flowmark import reformat_text
    from flowmark.reformat_api import reformat_file, reformat_files
    ep, u, exp, sub = job
    d = os.path.realpath(tempfile.mkdtemp(prefix="c15-"))
    cwd0 = os.getcwd()
    try:
        os.chdir(d)
        open("a.md", "w").write(PROBE)
        open("b.md", "w").write(PROBE2)
        before = snapshot(d)
        cli = (lambda a, s="": _cli_subproc(a, s, d)) if sub else (lambda a, s="": _cli_inproc(a, s))
        fl = flags(u)
        ref1 = reformat_text(PROBE, **kwargs(exp))
        ref2 = reformat_text(PROBE2, **kwargs(exp))
        out, rc, side, allowed = None, 0, True, set()
        err = ""
        if ep == "cli_file_stdout":
            rc, out, err = cli(fl + ["a.md"])
        elif ep in ("cli_file_inplace", "cli_file_inplace_nobackup"):
            nb = ep.endswith("nobackup")
            rc, so, err = cli(fl + ["--inplace"] + (["--nobackup"] if nb else []) + ["a.md"])
            out = open("a.md").read()
            allowed = {"a.md"} | (set() if nb else {"a.md.orig"})
            side = so == "" and (nb or open("a.md.orig").read() == PROBE)
        elif ep == "cli_stdin_stdout":
            rc, out, err = cli(fl + ["-"], PROBE)
        elif ep == "cli_stdin_out":
            rc, so, err = cli(fl + ["-o", "out.md", "-"], PROBE)
            out = open("out.md").read() if os.path.exists("out.md") else "<missing>"
            allowed = {"out.md"}
            side = so == ""
        elif ep == "cli_auto":
            a = ["--auto", "-w", str(u["width"])] + (["-p"] if u["plaintext"] else []) + ["--list-spacing", u["ls"], "a.md"]
            rc, so, err = cli(a)
            out = open("a.md").read()
            allowed = {"a.md"}
            side = so == "" and not os.path.exists("a.md.orig")
        elif ep == "cli_multi_stdout":
            rc, so, err = cli(fl + ["a.md", "b.md"])
            out = so[: len(ref1)]
            side = so == ref1 + ref2
        elif ep == "cli_multi_inplace":
            rc, so, err = cli(fl + ["--inplace", "--nobackup", "a.md", "b.md"])
            out = open("a.md").read()
            side = open("b.md").read() == ref2 and so == ""
            allowed = {"a.md", "b.md"}
        elif ep == "api_file_stdout":
            old = sys.stdout
            sys.stdout = io.StringIO()
            try:
                k = kwargs(u)
                reformat_file("a.md", None, k["width"], False, False, k["plaintext"], k["semantic"], k["cleanups"],
                              k["smartquotes"], k["ellipses"], True, k["list_spacing"])
                out = sys.stdout.getvalue()
            finally:
                sys.stdout = old
        elif ep == "api_file_inplace":
            reformat_file("a.md", None, inplace=True, nobackup=True, **kwargs(u))
            out = open("a.md").read()
            allowed = {"a.md"}
        elif ep == "api_files_inplace":
            reformat_files(["a.md", "b.md"], inplace=True, nobackup=True, **kwargs(u))
            out = open("a.md").read()
            side = open("b.md").read() == ref2
            allowed = {"a.md", "b.md"}
        elif ep == "api_text":
            k = kwargs(u)
            out = reformat_text(PROBE, k["width"], k["plaintext"], k["semantic"], k["cleanups"], k["smartquotes"],
                                k["ellipses"], k["list_spacing"])
        elif ep == "err_no_input":
            rc, out, err = cli(fl)
            side = out == ""
        elif ep == "err_out_multi":
            rc, out, err = cli(fl + ["-o", "out.md", "a.md", "b.md"])
            side = out == ""
        elif ep == "err_out_dir":
            rc, out, err = cli(fl + ["-o", "out.md", "."])
            side = out == ""
        elif ep == "err_out_glob":
            rc, out, err = cli(fl + ["-o", "out.md", "*.md"])
            side = out == ""
        elif ep == "err_inplace_file_stdin":
            rc, out, err = cli(fl + ["--inplace", "a.md", "-"], PROBE)
            side = out == ""
        elif ep == "err_inplace_stdin":
            rc, out, err = cli(fl + ["--inplace", "-"], PROBE)
            side = out == ""
        after = snapshot(d)
        changed = {k for k in set(before) | set(after) if before.get(k) != after.get(k)}
        fs_ok = changed <= allowed
        return dict(out=dig(out or ""), ref=dig(ref1), rc=rc, fs_ok=fs_ok, side=bool(side), err=err[-200:], changed=sorted(changed),
                    outtext=(out or "")[:300])
    except BaseException as e:  # noqa: BLE001
        return dict(out="EXC", ref="-", rc=98, fs_ok=False, side=False, err=repr(e)[:300], changed=[], outtext="")
    finally:
        os.chdir(cwd0)
        shutil.rmtree(d, ignore_errors=True)


def _execute_bytes(job):
    """Byte-level family: the input file is already in normal form for the options but stored with CRLF (or CR-free LF) line
    ends; every in-place entry point must leave exactly the bytes the text API returns (LF), like the stdout entry points do."""
    from flowmark import reformat_text
    from flowmark.reformat_api import reformat_file, reformat_files
    ep, u, eol = job
    d = os.path.realpath(tempfile.mkdtemp(prefix="c15b-"))
    cwd0 = os.getcwd()
    try:
        os.chdir(d)
        ref = reformat_text(PROBE, **kwargs(u))
        assert reformat_text(ref, **kwargs(u)) == ref or True
        # "bom": the file starts with a UTF-8 byte order mark (a Windows editor's habit): whatever the formatter makes of it, every entry
        # point makes the same of it as the text API does of the decoded text
        data = (b"\xef\xbb\xbf" + ref.encode()) if eol == "bom" else ref.replace("\n", eol).encode()
        open("a.md", "wb").write(data)
        fl = flags(u)
        rc, out = 0, None
        if ep == "cli_file_stdout":
            rc, so, _ = _cli_subproc(fl + ["a.md"], "", d)
            out = so.encode()
        elif ep == "cli_stdin_stdout":
            rc, so, _ = _cli_inproc(fl + ["-"], data.decode())
            out = so.encode()
        elif ep == "cli_file_inplace_nobackup":
            rc, _, _ = _cli_inproc(fl + ["--inplace", "--nobackup", "a.md"], "")
            out = open("a.md", "rb").read()
        elif ep == "cli_file_inplace":
            rc, _, _ = _cli_inproc(fl + ["--inplace", "a.md"], "")
            out = open("a.md", "rb").read()
        elif ep == "api_file_inplace":
            reformat_file("a.md", None, inplace=True, nobackup=True, **kwargs(u))
            out = open("a.md", "rb").read()
        elif ep == "api_files_inplace":
            reformat_files(["a.md"], inplace=True, nobackup=True, **kwargs(u))
            out = open("a.md", "rb").read()
        # expected: what the text API gives for the text a reader of the file gets (universal newlines), i.e. LF bytes
        exp = reformat_text(data.decode().replace("\r\n", "\n"), **kwargs(u)).encode()
        return dict(out=dig(out or b""), ref=dig(exp), rc=rc, same=(out == exp), head=(out or b"")[:80].decode(errors="replace"))
    except BaseException as e:  # noqa: BLE001
        return dict(out="EXC", ref="-", rc=98, same=False, head=repr(e)[:200])
    finally:
        os.chdir(cwd0)
        shutil.rmtree(d, ignore_errors=True)


# ---------------- several files in one run: each file gets what it gets alone (reference = a fresh process per file) ----------------
def _solo(job):
    """text API in a fresh interpreter: nothing formatted before it"""
    doc, u = job
    code = ("import sys, json; from flowmark import reformat_text; from flowmark.formats.flowmark_markdown import ListSpacing; "
            "u = json.loads(sys.argv[1]); sys.stdout.write(reformat_text(sys.stdin.read(), width=u['width'], plaintext=u['plaintext'], semantic=u['semantic'], "
            "cleanups=u['cleanups'], smartquotes=u['smartquotes'], ellipses=u['ellipses'], list_spacing=ListSpacing(u['ls'])))")
    p = subprocess.run([PY, "-c", code, json.dumps(u)], input=doc.encode(), capture_output=True,
                       env=dict(os.environ, PYTHONPATH=f"{REPO}/src"), timeout=120)
    if p.returncode != 0:
        raise RuntimeError(p.stderr.decode()[-300:])
    return p.stdout.decode()


def _execute_multi(job):
    from flowmark.reformat_api import reformat_files
    ep, u, docs, refs = job
    d = os.path.realpath(tempfile.mkdtemp(prefix="c15m-"))
    cwd0 = os.getcwd()
    try:
        os.chdir(d)
        names = [f"f{i}.md" for i in range(len(docs))]
        for n, x in zip(names, docs):
            open(n, "w").write(x)
        rc, so = 0, ""
        if ep == "cli_multi_stdout":
            rc, so, _ = _cli_inproc(flags(u) + names, "")
            got, pos = [], 0
            for r in refs:          # stdout is the concatenation: cut it at the reference lengths
                got.append(so[pos: pos + len(r)])
                pos += len(r)
            if pos != len(so):
                got[-1] += so[pos:]
        else:
            if ep == "cli_multi_inplace":
                rc, so, _ = _cli_inproc(flags(u) + ["--inplace", "--nobackup"] + names, "")
            else:
                reformat_files(list(names), inplace=True, nobackup=True, **kwargs(u))
            got = [open(n).read() for n in names]
        same = [g == r for g, r in zip(got, refs)]
        return dict(rc=rc, same=same, got=got)
    except BaseException as e:  # noqa: BLE001
        return dict(rc=98, same=[False] * len(docs), got=[repr(e)[:300]])
    finally:
        os.chdir(cwd0)
        shutil.rmtree(d, ignore_errors=True)


MODEL_MUTANTS = ["swap_sem_cleanups", "files_drops_ls", "auto_misses_ellipses"]


def run(tier: str) -> int:
    chk = Check("C15", tier, "model_checking")
    widths = {0, 40, 88}
    chk.rule = ("cases = the complete product width{0,40,88} x plaintext x semantic x cleanups x smartquotes x ellipses x list-spacing x 15 "
                "entry points of spec/EntryPoints.tla; several-files family: ordered pairs of 16 state-stressing documents x option points x 3 several-file entry points, each file compared with a fresh-process solo run; every point is executed in-process (+40 subprocess runs in quick, +300 in thorough); non-trivial = distinct (entry point, option point) executed")
    chk.assumptions = ["in-process cli.main with redirected sys.stdin/sys.stdout stands for the CLI; a seeded subset is cross-checked as real subprocesses",
                       "the reference is reformat_text(probe, **Expected) on the same tree (agreement, not absolute correctness)"]
    res = tlc.run_tlc("EntryPoints", tlc.cfg_text(constants=dict(Widths=widths, Mutant="none", DoDump=True),
                                                  invariants=["SinkCorrect", "UsageErrorsStop", "Dump"]), coverage=True)
    chk.add_tlc(res)
    for act in ("ParseArgv", "CallFiles", "CallFile", "CallText"):
        if res.coverage.get(act, (0, 0))[0] == 0:
            raise tlc.TlcError(f"vacuous model: {act} never taken")
    for mut in MODEL_MUTANTS:
        try:
            tlc.run_tlc("EntryPoints", tlc.cfg_text(constants=dict(Widths={40}, Mutant=mut, DoDump=False), invariants=["SinkCorrect"]), workers=4)
            raise tlc.TlcError(f"model sanity: mutant {mut} does not violate SinkCorrect")
        except tlc.TlcViolation:
            pass
    points = sorted(({"ep": r[1], "u": r[2], "exp": r[3], "layer": r[4]} for r in res.reports if r and r[0] == "P"),
                    key=lambda p: json.dumps(p, sort_keys=True))
    chk.notes["model_points"] = len(points)
    # non-vacuity: the probe separates all option points (pairwise distinct references wherever the sink views differ)
    from flowmark import reformat_text
    views = {}
    for p in points:
        e = p["exp"]
        e = dict(e, semantic=False) if e["width"] <= 0 else e      # semantic is a declared no-op without wrapping
        v = json.dumps({"width": e["width"], "plaintext": True} if e["plaintext"] else e, sort_keys=True)
        views.setdefault(v, e)
    refs = {}
    for v, e in views.items():
        refs.setdefault(dig(reformat_text(PROBE, **kwargs(e))), []).append(v)
    clashes = [vs for vs in refs.values() if len(vs) > 1]
    chk.notes["distinct_sink_views"] = len(views)
    chk.notes["probe_clashes"] = len(clashes)
    if clashes:
        raise tlc.TlcError(f"probe document does not separate option points: {clashes[:2]}")
    # ---- leg B ----
    sel = points
    nsub = 40 if tier == "quick" else 300
    step = max(1, len(sel) // nsub)
    jobs = [(p["ep"], p["u"], p["exp"], False) for p in sel]
    jobs += [(p["ep"], p["u"], p["exp"], True) for p in sel[chk.seed % step:: step] if p["ep"].startswith(("cli_", "err_"))][:nsub]
    results = pmap(_execute, jobs, chunksize=20)
    traces, metas = [], {}
    for tid, (job, r) in enumerate(zip(jobs, results), 1):
        ep, u, exp, sub = job
        chk.evaluations += 1
        chk.nontriv((ep, json.dumps(u, sort_keys=True), sub))
        traces.append(dict(id=tid, ep=ep, u=u, ref=r["ref"], out=r["out"], rc=int(r["rc"] if isinstance(r["rc"], int) else 1),
                           fs_ok=r["fs_ok"], side=r["side"]))
        metas[tid] = dict(ep=ep, u=u, expected=exp, subprocess=sub, rc=r["rc"], stderr=r["err"], changed=r["changed"],
                          flags=flags(u), output_head=r["outtext"])
    reports, gen, dist = tlc.validate_traces("EntryTrace", traces, cfg=tlc.cfg_text(spec="TraceSpec",
                                             constants=dict(Widths=widths, Mutant="none", DoDump=False), invariants=["Report"]))
    chk.states += dist
    chk.transitions += gen
    chk.traces = len(traces)
    for t in traces:
        _, id_, sinkok, agree, rc, same, fs_ok, side = reports[t["id"]]
        if not agree:
            clause = "UsageError" if t["ep"].startswith("err_") else ("Agree" if not same else "ExitCode" if rc != 0 else "NothingElseWritten" if not fs_ok else "PerFileResult")
            chk.violation(clause, metas[id_])
    # ---- byte-level family: already-formatted files with CRLF / LF line ends ----
    upoints = sorted({json.dumps(p["u"], sort_keys=True) for p in points if not p["ep"].startswith(("err_", "cli_auto"))})
    bjobs = [(ep, json.loads(u), eol) for k, u in enumerate(upoints) if (k + chk.seed) % (6 if tier == "quick" else 1) == 0
             for ep in ("cli_file_inplace", "cli_file_inplace_nobackup", "api_file_inplace", "api_files_inplace") for eol in ("\r\n", "\n", "bom")]
    bjobs += [(ep, json.loads(u), "bom") for k, u in enumerate(upoints) if (k + chk.seed) % (6 if tier == "quick" else 1) == 0 for ep in ("cli_file_stdout", "cli_stdin_stdout")]
    btr = []
    for tid2, (job, r) in enumerate(zip(bjobs, pmap(_execute_bytes, bjobs, chunksize=10)), 10 ** 6):
        chk.evaluations += 1
        chk.nontriv(("bytes", job[0], json.dumps(job[1], sort_keys=True), job[2]))
        btr.append(dict(id=tid2, ep=job[0], u=job[1], ref=r["ref"], out=r["out"], rc=int(r["rc"]), fs_ok=True, side=True))
        metas[tid2] = dict(ep=job[0], u=job[1], expected=job[1], subprocess=False, rc=r["rc"], stderr="", changed=[], flags=flags(job[1]),
                           output_head=r["head"], family="already formatted file stored with " + {"\r\n": "CRLF line ends", "\n": "LF line ends", "bom": "a leading UTF-8 BOM"}[job[2]])
    brep, g2, d2 = tlc.validate_traces("EntryTrace", btr, cfg=tlc.cfg_text(spec="TraceSpec", constants=dict(Widths=widths, Mutant="none", DoDump=False),
                                                                          invariants=["Report"]))
    chk.states += d2
    chk.transitions += g2
    chk.traces += len(btr)
    for t in btr:
        if not brep[t["id"]][3]:
            chk.violation("Agree(bytes on disk)", metas[t["id"]])
    # ---- several files in one run ----
    from harness.props import c13
    mdocs = [x for x in c13.DOCS if x.strip()] + [PROBE, "[spec]: https://example.com/spec\n\nSee the [spec] for details.\n", "intro\n\n## Ends with a heading\n",
                                                 "| 1 | 2 |\n|---|---|\n| 3 | 4 |\n", "| \\. | x |\n|---|---|\n| a | b |\n"]
    mu = [json.loads(u) for k, u in enumerate(upoints) if not json.loads(u)["plaintext"]]
    mu = mu[chk.seed % 7:: max(1, len(mu) // (3 if tier == "quick" else 12))][: (3 if tier == "quick" else 12)]
    solo_jobs = [(x, u) for u in mu for x in mdocs]
    solo = dict(zip(((x, json.dumps(u, sort_keys=True)) for x, u in solo_jobs), pmap(_solo, solo_jobs, chunksize=2)))
    mjobs = []
    for u in mu:
        ku = json.dumps(u, sort_keys=True)
        for a in range(len(mdocs)):
            for b in range(len(mdocs)):
                if a == b:
                    continue
                for ep in ("cli_multi_stdout", "cli_multi_inplace", "api_files_inplace"):
                    if tier == "quick" and (a + b + len(ep)) % 3:
                        continue
                    mjobs.append((ep, u, [mdocs[a], mdocs[b]], [solo[(mdocs[a], ku)], solo[(mdocs[b], ku)]]))
    mtr = []
    for tid3, (job, r) in enumerate(zip(mjobs, pmap(_execute_multi, mjobs, chunksize=20)), 2 * 10 ** 6):
        chk.evaluations += 1
        chk.nontriv(("multi", job[0], json.dumps(job[1], sort_keys=True), dig(job[2][0]), dig(job[2][1])))
        mtr.append(dict(id=tid3, ep=job[0], u=job[1], ref=dig(job[3][0]), out=dig(r["got"][0]), rc=int(r["rc"]), fs_ok=True, side=all(r["same"][1:])))
        metas[tid3] = dict(ep=job[0], u=job[1], expected=job[1], subprocess=False, rc=r["rc"], flags=flags(job[1]), files=job[2], alone=job[3], in_run=r["got"],
                           family="several files in one run; reference = each file formatted alone in a fresh process")
    mrep, g3, d3 = tlc.validate_traces("EntryTrace", mtr, cfg=tlc.cfg_text(spec="TraceSpec", constants=dict(Widths=widths, Mutant="none", DoDump=False),
                                                                          invariants=["Report"]))
    chk.states += d3
    chk.transitions += g3
    chk.traces += len(mtr)
    chk.notes["several_files_runs"] = len(mtr)
    for t in mtr:
        if not mrep[t["id"]][3]:
            chk.violation("EachFileAsAlone", metas[t["id"]])
    for id_ in list(metas)[:: max(1, len(metas) // 5)][:5]:
        chk.sample({k: metas[id_][k] for k in ("ep", "flags", "rc", "subprocess")})
    chk.exhaustive = True
    chk.explanation = "EntryPoints.tla explored completely (finite product) and every exported point executed on the real code"
    return chk.finish()


def replay(path: str) -> int:
    v = json.loads(open(path).read())
    print(json.dumps(v, indent=1))
    c = v["case"]
    print(_execute((c["ep"], c["u"], c["expected"], False)))
    return 0
