"""C18 — gitignore handling agrees with git.

Leg A: TLC enumerates spec/Gitignore.tla: every assignment of <= MaxLines pattern lines (17 patterns: basename, anchored,
       multi-segment, dir-only, *, **, ?, negation) to the .gitignore files at the root and in d/, computes the listing by
       git's rules (last match wins per file, deepest file with an opinion wins, no re-inclusion below an excluded
       directory) and checks sanity invariants of the chain semantics.  Every configuration is exported.
Leg B: each configuration is materialised in a scratch `git init`; three observations: git itself
       (`git ls-files -co --exclude-standard`), flowmark (FileResolver / --list-files) with and without gitignore.
Leg C: spec/GitTrace.tla decides per configuration: flowmark = git (verdict, both real) and the off-switch lists
       everything; model = git is reported as drift (the model was validated against git at design time)."""
from __future__ import annotations

import json
import os
import random
import shutil
import subprocess
import tempfile
import threading
from concurrent.futures import ThreadPoolExecutor

from harness import tlc
from harness.core import Check

TEXT = ["a.md", "/a.md", "d/a.md", "d/", "e/", "/e/", "*.md", "d/*.md", "**/a.md", "d/**", "?.md", "!a.md", "d/e", "e",
        "!d/a.md", "d/*", "!/a.md", "!e/", "!d/", "!e", "e/a.md", "*/a.md", "!*.md", "**/e/", "!d/e/", "!*", "*", "!*/", "*/"]
FILES = ["a.md", "b.md", "d/a.md", "d/b.md", "d/e/a.md", "d/e/b.md", "e/a.md"]
GITENV = dict(os.environ, GIT_CONFIG_GLOBAL="/dev/null", GIT_CONFIG_SYSTEM="/dev/null", GIT_CONFIG_NOSYSTEM="1", HOME="/nonexistent")
_local = threading.local()


def _repo():
    """one scratch git repository per worker thread"""
    if not hasattr(_local, "root"):
        root = os.path.realpath(tempfile.mkdtemp(prefix="c18-"))
        for f in FILES:
            p = os.path.join(root, f)
            os.makedirs(os.path.dirname(p), exist_ok=True)
            open(p, "w").write("x\n")
        subprocess.run(["git", "init", "-q", root], check=True, env=GITENV, capture_output=True)
        _local.root = root
        _ROOTS.append(root)
    return _local.root


_ROOTS: list = []


def observe(cfg):
    """cfg = (root pattern ids, d pattern ids) -> (git vec, fm vec, fm_off vec)"""
    from flowmark.file_resolver import FileResolver, FileResolverConfig
    rootp, dp = cfg
    root = _repo()
    for rel, ids in ((".gitignore", rootp), ("d/.gitignore", dp)):
        p = os.path.join(root, rel)
        if ids:
            open(p, "w").write("".join(TEXT[i - 1] + "\n" for i in ids))
        elif os.path.exists(p):
            os.remove(p)
    out = subprocess.run(["git", "-C", root, "ls-files", "-co", "--exclude-standard"], capture_output=True, text=True,
                         env=GITENV, check=True).stdout.split("\n")
    git = [f in out for f in FILES]

    def listing(respect, args=None):
        res = FileResolver(FileResolverConfig(respect_gitignore=respect)).resolve(args or [root])
        rels = {os.path.relpath(str(p), root) for p in res}
        return [f in rels for f in FILES]
    # overlapping walk roots in one call: each root is resolved as if it were given alone, whatever the order
    sub = os.path.join(root, "d")
    r_root, r_sub = listing(True), listing(True, [sub])
    union = [a or b for a, b in zip(r_root, r_sub)]
    overlap_ok = listing(True, [root, sub]) == union and listing(True, [sub, root]) == union
    return git, r_root, listing(False), overlap_ok


def cli_listing(cfg):
    from harness.props.c16 import run_cli
    rootp, dp = cfg
    root = _repo()
    for rel, ids in ((".gitignore", rootp), ("d/.gitignore", dp)):
        p = os.path.join(root, rel)
        if ids:
            open(p, "w").write("".join(TEXT[i - 1] + "\n" for i in ids))
        elif os.path.exists(p):
            os.remove(p)
    rc, out, err = run_cli(["--list-files", root])
    rels = {os.path.relpath(x, root) for x in out.split("\n") if x}
    return [f in rels for f in FILES]


def run(tier: str) -> int:
    chk = Check("C18", tier, "model_checking")
    chk.rule = ("cases = configurations of spec/Gitignore.tla: all 900 with <= 1 line per .gitignore (root, d/) plus a seeded sample of the "
                "the ~424 000 with <= 2 lines (quick 700, thorough 12 000), every (p, q, p) sandwich at the root and seeded three-line configurations; 7 files at depth <= 3; non-trivial = configuration in which git ignores "
                "at least one file")
    chk.assumptions = ["git on PATH is the oracle (git ls-files -co --exclude-standard in a scratch repository, global/system config disabled)",
                       "the universe is 7 files x 29 patterns x 2 ignore files; patterns outside it are not covered"]
    if not shutil.which("git"):
        raise tlc.TlcError("git is not available")
    N = len(TEXT) + 1
    pat = set(range(1, N))
    res = tlc.run_tlc("Gitignore", tlc.cfg_text(constants=dict(PatIds=pat, MaxLines=1, DoDump=True),
                                                invariants=["NoReinclusionBelowIgnoredDir", "EmptyMeansAll", "Report"]))
    chk.add_tlc(res)
    configs = sorted({(tuple(r[1]), tuple(r[2])) for r in res.reports if r and r[0] == "G"})
    model = {(tuple(r[1]), tuple(r[2])): r[3] for r in res.reports if r and r[0] == "G"}
    # two-line configurations: the model side is evaluated by GitTrace (ListedVec) for the sampled ones, and TLC explores
    # the whole two-line space for the sanity invariants in thorough
    if tier == "thorough":
        res2 = tlc.run_tlc("Gitignore", tlc.cfg_text(constants=dict(PatIds=pat, MaxLines=2, DoDump=False),
                                                     invariants=["NoReinclusionBelowIgnoredDir", "EmptyMeansAll"]), timeout=1800)
        chk.add_tlc(res2)
    rng = random.Random(chk.seed)
    n2 = 700 if tier == "quick" else 12000
    lines = [()] + [(i,) for i in range(1, N)] + [(i, j) for i in range(1, N) for j in range(1, N)]
    extra = set()
    while len(extra) < n2:
        c = (rng.choice(lines), rng.choice(lines))
        if c not in model:
            extra.add(c)
    # order-sensitive "sandwiches" (p, q, p) and seeded three-line configurations: last-match-wins depends on keeping every line
    # in order, duplicates included (git re-reads a repeated pattern at its later position)
    sandwiches = {((a, b, a), ()) for a in range(1, N) for b in range(1, N) if a != b} | {((), (a, b, a)) for a in (1, 7, 11, 12) for b in (1, 7, 11, 12, 15) if a != b}
    if tier == "quick":
        sandwiches = {c for k, c in enumerate(sorted(sandwiches)) if (k + chk.seed) % 2 == 0}
    lines3 = [(i, j, k) for i in range(1, N) for j in range(1, N) for k in range(1, N)]
    triples = set()
    while len(triples) < (150 if tier == "quick" else 3000):
        triples.add((rng.choice(lines3), rng.choice(lines)) if rng.random() < 0.5 else (rng.choice(lines), rng.choice(lines3)))
    allcfg = configs + sorted(extra) + sorted(sandwiches) + sorted(triples)
    chk.notes["model_configurations"] = len(configs)
    chk.notes["sampled_two_line"] = len(extra)
    with ThreadPoolExecutor(16) as ex:
        obs = list(ex.map(observe, allcfg))
    # CLI cross-check on a subset (same repos, sequentially per thread-local repo -> run in the main thread)
    cli_sub = allcfg[:: max(1, len(allcfg) // (40 if tier == "quick" else 300))]
    cli_obs = {c: cli_listing(c) for c in cli_sub}
    for r in _ROOTS + ([_local.root] if hasattr(_local, "root") else []):
        shutil.rmtree(r, ignore_errors=True)
    traces, metas = [], {}
    for tid, (c, (git, fm, off, overlap_ok)) in enumerate(zip(allcfg, obs), 1):
        chk.evaluations += 1
        if not overlap_ok:
            chk.violation("OverlappingRootsIndependent", dict(root_gitignore=[TEXT[i - 1] for i in c[0]], d_gitignore=[TEXT[i - 1] for i in c[1]],
                                                              why="resolve([root, root/d]) or resolve([root/d, root]) differs from the union of the two roots resolved alone"))
        traces.append(dict(id=tid, root=list(c[0]), d=list(c[1]), git=git, fm=fm, fm_off=off))
        metas[tid] = dict(root_gitignore=[TEXT[i - 1] for i in c[0]], d_gitignore=[TEXT[i - 1] for i in c[1]],
                          git=[f for f, x in zip(FILES, git) if x], flowmark=[f for f, x in zip(FILES, fm) if x])
        if not all(git):
            chk.nontriv(c)
        if c in cli_obs and cli_obs[c] != fm:
            chk.violation("CliListingEqualsResolver", dict(metas[tid], cli=[f for f, x in zip(FILES, cli_obs[c]) if x]))
    reports, gen, dist = tlc.validate_traces("GitTrace", traces, cfg=tlc.cfg_text(spec="TraceSpec", constants=dict(PatIds=pat, MaxLines=3, DoDump=False),
                                                                                  invariants=["TraceReport"]))
    chk.states += dist
    chk.transitions += gen
    chk.traces = len(traces)
    for t in traces:
        _, id_, model_ok, agree, off_all, mvec = reports[t["id"]]
        m = metas[id_]
        if not model_ok:
            chk.drift_note(dict(m, model=[f for f, x in zip(FILES, mvec) if x]))
        if not off_all:
            chk.violation("NoRespectGitignoreListsAll", m)
        if not all(agree):
            bad = [f for f, ok in zip(FILES, agree) if not ok]
            if "D19" in chk.open_findings:
                chk.known_finding("D19", dict(m, differs_on=bad))
            else:
                chk.violation("AgreesWithGit", dict(m, differs_on=bad))
    for id_ in list(metas)[:: max(1, len(metas) // 5)][:5]:
        chk.sample(metas[id_])
    chk.exhaustive = False
    chk.explanation = "all one-line configurations exhaustively, two-line configurations sampled with VERIF_SEED; oracle = git itself"
    return chk.finish()


def replay(path: str) -> int:
    v = json.loads(open(path).read())
    print(json.dumps(v, indent=1))
    return 0
