"""C11 — semantic line breaks fall at sentence ends and keep edits local.

Leg A: TLC checks spec/SentenceWrap.tla (one action per sentence, greedy fill as operator) exhaustively for
       P1 (every break after a sentence end or width-forced), P2 (every sentence end followed by a break unless
       the line so far is shorter than min_line_len) and DiffLocal (self-composition over all single-sentence
       edits), with the D14/D13 triggers carved out of P1.
Leg B: every behaviour is replayed into the real line_wrap_by_sentence(width, min_line_len) -- whole paragraph
       and after every sentence (abstract state after each action) -- plus every single-sentence edit, plus an
       end-to-end family through reformat_text(semantic=True) inside containers with the default minimum 20.
Leg C: spec/SentenceTrace.tla validates each observation step by step against the machine (drift) and
       evaluates P1 / P2 / Local on the observation alone (verdict)."""
from __future__ import annotations

import json

from harness import sentence
from harness.core import Check


def run(tier: str) -> int:
    chk = Check("C11", tier, "model_checking")
    chk.rule = ("cases = every behaviour of spec/SentenceWrap.tla in the tier's constants (word kind/length vectors x width x "
                "min_line_len x indents x markdown flag), their single-sentence edits (pairs) and an end-to-end family; "
                "non-trivial = distinct observation with >= 2 output lines or a pair")
    chk.assumptions = ["projection harness/vocab.py is trusted", "sentence ends are generated as words matching SENTENCE_END_RE "
                       "('aa.'), plain words never match it", "TLC evaluates spec/SentenceTrace.tla correctly"]
    pairs = [0]
    sampled = []

    def on_item(meta, rep, t):
        chk.evaluations += 1
        r = sentence.split_report(rep)
        fails = []
        if t["ok"]:
            fails += [("P1", j) for j, ok in enumerate(r["p1"], 1) if not ok]
            fails += [("P2", j) for j, ok in enumerate(r["p2"], 1) if not ok]
        else:
            fails.append(("Lossless", None))     # cannot judge breaks of an output that is not the input's words
        if meta["kind"] == "pair":
            pairs[0] += 1
            if not r["local"]:
                fails.append(("Local", meta["edited_sentence"]))
        residual = []
        for clause, j in fails:
            if clause == "P1" and r["acc"]:
                if r["t14"][j - 1] and "D14" in chk.open_findings:
                    chk.known_finding("D14", meta)
                    continue
                if r["t13"][j - 1] and "D13" in chk.open_findings:
                    chk.known_finding("D13", meta)
                    continue
            residual.append((clause, j))
        if residual:
            chk.violation("+".join(sorted({c for c, _ in residual})), dict(meta, failing=residual))
        elif not fails and not (r["acc"] and r["acc2"]) and not meta.get("e2e"):
            chk.drift_note(meta)
        if meta["nlines"] > 1 or meta["kind"] == "pair":
            chk.nontriv(json.dumps([t["words"], t["width"], t["minlen"], t["ii"], t["si"], t["md"], t.get("words2")]))
        if len(sampled) < 5 and chk.evaluations % 9973 == 1:
            sampled.append({k: meta.get(k) for k in ("fn", "kind", "text", "width", "minlen", "ii", "si", "output", "text2", "output2")})
    data = sentence.collect(tier, chk.seed, on_item=on_item)
    chk.states, chk.transitions, chk.traces = data["states"], data["transitions"], data["traces"]
    chk.notes["model_behaviours"] = data["behaviours"]
    for e in data["errors"]:
        chk.violation("NoException", e)
    chk.notes["pairs"] = pairs[0]
    for smp in sampled:
        chk.sample(smp)
    chk.exhaustive = True
    chk.explanation = f"SentenceWrap.tla explored exhaustively for {sorted((k, sorted(v) if isinstance(v, set) else v) for k, v in data['consts'].items())}"
    return chk.finish()


def replay(path: str) -> int:
    from flowmark.linewrapping.line_wrappers import line_wrap_by_sentence
    v = json.loads(open(path).read())
    print(json.dumps(v, indent=1))
    c = v["case"]
    if c.get("fn") == "line_wrap_by_sentence":
        lw = line_wrap_by_sentence(width=c["width"], min_line_len=c["minlen"], is_markdown=c["md"])
        print(repr(lw(c["text"], " " * c["ii"], " " * c["si"])))
    return 0
