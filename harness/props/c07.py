"""C07 — YAML frontmatter is passed through exactly and does not influence the body.

Leg A: TLC explores spec/Frontmatter.tla: texts as sequences of pieces (blank / --- / yaml / markdown) separated by LF,
       CRLF or a character that str.splitlines() splits on but that is not a line end; the reference reading Ref
       (only LF/CRLF end lines; first --- to next ---; unclosed = everything) against split_frontmatter as a machine
       with the line splitter the code uses: FmExact, BodyIndependent.
Leg B: every text of the model is concretised (rotating concrete separators: CR, VT, FF, FS, GS, RS, NEL, LS, PS) and
       observed through the public split_frontmatter and through reformat_text under several option sets:
       f(fm + body), f(body alone), f(f(fm + body)).
Leg C: spec/FmTrace.tla validates each observation against the machine (classification) and evaluates the property
       predicates: same block character for character, output = block + f(body), fixed point; unclosed = unchanged."""
from __future__ import annotations

import json

from harness import tlc
from harness.core import Check
from harness.par import pmap

SPLITTER = "lf"     # the line splitter of split_frontmatter in /repo ("lf" after the D11 repair)
XSEPS = ["\x0b", "\x0c", "\x1c", "\x1d", "\x1e", "\x85", " ", " ", "\r"]
CONC = {
    "blank": ["", "  ", ""],
    "delim": ["---", "--- ", "---", " ---"],
    "yaml": ['title: "Quoted... \'x\'"', "--- x", "list: [a, b]  ", "# not a heading", "- item *x*", "...", "key: value", "text: a  b"],
    "md": ['Body "text"... here that\'s long enough to be wrapped at narrow widths for sure.', "# Heading **bold**", "- item one", "para two"],
}
OPTS = [dict(width=88), dict(width=30, semantic=True, cleanups=True, smartquotes=True, ellipses=True), dict(width=0, semantic=False, cleanups=False)]


OVER = {}          # piece index -> text, set per job (spellings of the delimiter lines that the rotation cannot combine)


def conc_piece(p, i, variant):
    if i in OVER:
        return OVER[i]
    opts = CONC[p["c"]]
    return opts[(i + variant) % len(opts)]


def conc_sep(s, i, variant):
    return {"LF": "\n", "CRLF": "\r\n", "EOF": ""}.get(s) if s != "X" else XSEPS[(i + variant) % len(XSEPS)]


def concretise(doc, variant, lo=1, hi=None, crlf_to_lf=False, final=None):
    hi = hi or len(doc)
    out = []
    for i in range(lo, hi + 1):
        p = doc[i - 1]
        out.append(conc_piece(p, i, variant))
        if i < hi or final is None:
            sep = conc_sep(p["s"], i, variant)
            if sep == "\r" and (i >= len(doc) or conc_piece(doc[i], i + 1, variant) == ""):
                sep = "\x0b"        # a lone CR directly followed by an empty piece and LF would read as CRLF
            out.append("\n" if (crlf_to_lf and sep == "\r\n") else sep)
    if final is not None:
        out.append(final)
    return "".join(out)


def body_starts_with_delim(doc, hi) -> bool:
    """first non-blank piece of the body is a delimiter (any reading)"""
    for p in doc[hi:]:
        if p["c"] == "blank":
            continue
        return p["c"] == "delim"
    return False


def _observe(job):
    from flowmark import reformat_text
    from flowmark.formats.frontmatter import split_frontmatter
    idx, doc, ref, variant = job[:4]
    OVER.clear()
    OVER.update(job[4] if len(job) > 4 else {})
    x = concretise(doc, variant)
    fm_obs, content_obs = split_frontmatter(x)
    obs_kind = "none" if fm_obs == "" else ("unclosed" if content_obs == "" and fm_obs == x else "closed")
    res = dict(idx=idx, x=x, obs_kind=obs_kind, per_opts=[])
    if ref["kind"] == "closed":
        exp_fm = concretise(doc, variant, ref["lo"], ref["hi"], crlf_to_lf=True, final="\n")
        body = concretise(doc, variant, ref["hi"] + 1) if ref["hi"] < len(doc) else ""
        res.update(exp_fm=exp_fm, body=body, block_ok=(fm_obs == exp_fm))
    elif ref["kind"] == "unclosed":
        res.update(block_ok=(fm_obs == x and content_obs == ""))
    else:
        res.update(block_ok=(fm_obs == ""))
    # a closed block whose closing delimiter is the last line with nothing after it looks like "unclosed" to obs_kind: refine
    if ref["kind"] == "closed" and fm_obs == res.get("exp_fm") and content_obs.strip() == "":
        res["obs_kind"] = "closed"
    for o in OPTS:
        try:
            out = reformat_text(x, **o)
            out2 = reformat_text(out, **o)
            # the fixed-point clause of C07 is about unclosed frontmatter only (general idempotence is C02)
            r = dict(out=out, fixed_ok=(out2 == out) if ref["kind"] == "unclosed" else True, prefix_ok=True, suffix_ok=True)
            if ref["kind"] == "closed":
                r["prefix_ok"] = out.startswith(res["exp_fm"])
                r["suffix_ok"] = r["prefix_ok"] and out[len(res["exp_fm"]):] == reformat_text(res["body"], **o)
            elif ref["kind"] == "unclosed":
                r["prefix_ok"] = out == (x if x.endswith("\n") else x + "\n")
            res["per_opts"].append(r)
        except BaseException as e:  # noqa: BLE001
            res["per_opts"].append(dict(exc=repr(e)))
    return res


def run(tier: str) -> int:
    chk = Check("C07", tier, "model_checking")
    n = 4 if tier == "quick" else 5
    chk.rule = (f"cases = every text of spec/Frontmatter.tla with <= {n} pieces over 4 classes x 3 separators (LF, CRLF, non-line-end X) x "
                f"{len(OPTS)} option sets, concretised with rotating piece texts and the 9 concrete X characters; non-trivial = text that the "
                "reference reads as closed or unclosed frontmatter")
    chk.assumptions = ["piece texts are fixed representatives of their class (quotes, dots, Markdown syntax, trailing spaces included)"]
    consts = dict(MaxPieces=n, Classes={"blank", "delim", "yaml", "md"}, Seps={"LF", "CRLF", "X", "EOF"}, Splitter=SPLITTER)
    invs = ["FmExactK", "Dump"] + (["FmExact", "BodyIndependent"] if SPLITTER == "lf" else [])
    res = tlc.run_tlc("Frontmatter", tlc.cfg_text(constants=dict(consts, DoDump=True), invariants=invs), coverage=True, timeout=3000)
    chk.add_tlc(res)
    if SPLITTER == "lf":
        try:
            tlc.run_tlc("Frontmatter", tlc.cfg_text(constants=dict(consts, MaxPieces=3, Splitter="splitlines", DoDump=False), invariants=["FmExact"]), workers=4)
            raise tlc.TlcError("model sanity: the splitlines() splitter does not violate FmExact")
        except tlc.TlcViolation:
            pass
    docs_ = sorted((r for r in res.reports if r and r[0] == "F"), key=json.dumps)
    chk.notes["model_texts"] = len(docs_)
    # texts without frontmatter under every reading are only sampled (they exercise nothing of the property)
    jobs = []
    for i, d in enumerate(docs_):
        _, doc, mres, ref = d
        if ref["kind"] == "none" and mres["kind"] == "none" and (i + chk.seed) % 10:
            continue
        if ref["kind"] == "closed" and body_starts_with_delim(doc, ref["hi"]):
            chk.discarded += 1          # format(body alone) would read the body's own '---' as frontmatter: equation undefined
            continue
        jobs.append((i, doc, ref, (i + chk.seed) % 7))
        # a closed block followed by another delimiter-looking line in the body: every spelling of the closing line against bare
        # (and padded) later lines -- the first closing line wins whatever its padding
        def alone(j):      # piece j is a line of its own (not joined to a neighbour by a non-line-end separator)
            return doc[j - 1]["c"] == "delim" and doc[j - 1]["s"] != "X" and (j == 1 or doc[j - 2]["s"] != "X")
        later = [j for j in range(ref["hi"] + 1, len(doc) + 1) if alone(j)] if ref["kind"] == "closed" and alone(ref["hi"]) else []
        if later:
            for close in ("---", "--- ", " ---", "---\t"):
                for lt in ("---", "--- "):
                    jobs.append((i, doc, ref, (i + chk.seed) % 7, {ref["hi"]: close, **{j: lt for j in later}}))
    obs = pmap(_observe, jobs, chunksize=100)
    traces, metas = [], {}
    tid = 0
    for (i, doc, ref, variant, *_over), o in zip(jobs, obs):
        for oi, r in enumerate(o["per_opts"]):
            chk.evaluations += 1
            if "exc" in r:
                chk.violation("NoException", dict(text=o["x"], opts=OPTS[oi], exc=r["exc"]))
                continue
            tid += 1
            traces.append(dict(id=tid, doc=doc, ref_kind=ref["kind"], obs_kind=o["obs_kind"], block_ok=o["block_ok"],
                               prefix_ok=r["prefix_ok"], suffix_ok=r["suffix_ok"], fixed_ok=r["fixed_ok"]))
            metas[tid] = dict(text=o["x"], opts=OPTS[oi], reference=ref, observed_split=o["obs_kind"], expected_block=o.get("exp_fm"),
                              body=o.get("body"), output=r["out"][:600])
            if ref["kind"] != "none":
                chk.nontriv((i, oi, json.dumps(_over)))
    reports, gen, dist = tlc.validate_traces("FmTrace", traces, cfg=tlc.cfg_text(spec="TraceSpec", constants=dict(consts, DoDump=False),
                                                                                 invariants=["TraceReport"]), timeout=3000)
    chk.states += dist
    chk.transitions += gen
    chk.traces = len(traces)
    for t in traces:
        _, id_, acc, ref_same, block_ok, prefix_ok, suffix_ok, fixed_ok, trig11 = reports[t["id"]]
        m = metas[id_]
        if not ref_same:
            raise tlc.TlcError(f"reference reading differs between model run and trace validation: {m}")
        fails = [n_ for n_, ok in (("SameBlock", block_ok), ("BlockIsPrefix", prefix_ok), ("BodyIndependent", suffix_ok), ("FixedPoint", fixed_ok)) if not ok]
        if not fails:
            if not acc:
                chk.drift_note(m)
            continue
        if trig11 and acc and "D11" in chk.open_findings and set(fails) <= {"SameBlock", "BlockIsPrefix", "BodyIndependent", "FixedPoint"}:
            chk.known_finding("D11", dict(m, failing=fails))
        elif t["ref_kind"] == "unclosed" and acc and fails == ["FixedPoint"] or (t["ref_kind"] == "unclosed" and acc and set(fails) <= {"FixedPoint", "BlockIsPrefix"} and "D10" in chk.open_findings):
            if "D10" in chk.open_findings:
                chk.known_finding("D10", dict(m, failing=fails))
            else:
                chk.violation("+".join(fails), m)
        else:
            chk.violation("+".join(fails), m)
    for id_ in list(metas)[:: max(1, len(metas) // 5)][:5]:
        chk.sample(metas[id_])
    chk.exhaustive = True
    chk.explanation = f"Frontmatter.tla explored completely for <= {n} pieces; every text with frontmatter under some reading replayed"
    return chk.finish()


def replay(path: str) -> int:
    v = json.loads(open(path).read())
    print(json.dumps(v, indent=1))
    from flowmark import reformat_text
    print(repr(reformat_text(v["case"]["text"], **v["case"]["opts"])))
    return 0
