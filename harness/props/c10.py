"""C10 — cleanups and list-spacing options do exactly what they say and nothing else.

Spec: spec/Transforms.tla gives Unbold as a function on the preorder node sequence of a document and SpacingProp on what
      a reader can see (blank-line gaps between consecutive non-blank lines, per-list item count / single-block items /
      tightness); spec/Render.tla is the renderer whose list-item separator logic implements the modes.
Leg B: documents = every realisable list-bearing document of the bounded Render model (family S), a family of headings
      with every mix of emphasis (all bold, bold-italic, partly bold, bold + text, bold link, nested, setext, in
      containers), and the construct-rich corpus; each is formatted with cleanups off/on and with list-spacing
      preserve / loose / tight under other option settings.
Leg C: TLC evaluates on every observation: flat(tree(on)) = Unbold(flat(tree(off))) (cleanups), and SpacingProp(mode) on
      the (preserve, mode) pair: non-blank lines identical, blank lines differ only directly before list items, loose =>
      every list with >= 2 items reads loose, tight => every list whose items hold a single block reads tight."""
from __future__ import annotations

import json
import re

from harness import corpus, docgen, docs, project, tlc
from harness.core import Check
from harness.par import pmap
from harness.props import c01

HEADINGS = [
    "# **All bold**", "## ***Bold italic***", "### **Partly** bold", "#### text **bold**", "# **[bold link](http://x.y)**",
    "## **bold *inner italic* bold**", "# *only italic*", "## __underscore bold__", "# **a** **b**", "### **bold `code` inside**",
    "# ** not bold **", "## *__italic bold__*", "# **Bold** \\", "Setext **bold**\n===", "**Setext all bold**\n---",
    "> # **Quoted bold heading**", "- # **Heading in item**\n\n  text", "# **bold**text", "###### ***x***", "# ~~**struck bold**~~",
    # a fully bold heading inside every container that can hold one
    "x[^1]\n\n[^1]: Note.\n\n    ## **In footnote**", "> [!NOTE]\n> ## **In alert**", "1. item\n\n   ### **In ordered item**", "> - ## **In item in quote**",
    "# ***Note*** on usage", "## ***a*** and ***b***", "### *__x__* tail", "# ***lead*** **rest**", "# **__bold in bold__**", "## ***__bold in bold italic__***", "### __**x**__", "- > # **In quote in item**", "x[^2]\n\n[^2]: Note.\n\n    - ## **In item in footnote**", "> > ## **Doubly quoted**", "- a\n  - b\n\n    #### **Nested item**",
]
LIST_DOCS = [   # authored-loose / authored-tight lists whose items hold several blocks, with and without blank lines inside the item
    ("loose_nested", "- a\n  - x\n\n- b\n  - y\n"), ("loose_quote_in_item", "1. a\n   > q\n\n2. b\n"), ("loose_code_in_item", "- a\n  ```\n  c\n  ```\n\n- b\n"),
    ("tight_nested", "- a\n  - x\n- b\n  - y\n"), ("loose_multi_para", "- a\n\n  second\n\n- b\n"), ("in_quote", "> - a\n>   - x\n>\n> - b\n"),
    ("loose_single", "- a\n\n- b\n\n- c\n"), ("tight_single", "* a\n* b\n* c\n"), ("mixed_depth", "1. one\n   - in one\n\n     para\n2. two\n"),
    ("empty_item", "- a\n-\n- b\n"), ("empty_item_loose", "- a\n\n-\n\n- b\n"), ("empty_first", "-\n- a\n- b\n"), ("empty_ordered", "1. a\n2.\n3. c\n"),
    ("footnote_list", "x[^1]\n\n[^1]: note\n\n    - f a\n\n    - f b\n"), ("task_loose", "- [ ] a\n\n- [x] b\n"), ("three_levels", "- a\n  - b\n    - c\n\n    - d\n  - e\n- f\n"),
]
ITEM_RE = re.compile(r"^(?:[-*+]|\d+[.)])(?: |$)")


def strip_containers(line: str) -> str:
    s = line
    while True:
        t = s.lstrip(" ")
        if t.startswith(">"):
            s = t[1:]
        else:
            return t


def heading_in_item(text: str) -> bool:
    """a list item whose first block is a heading, or a heading on a continuation line of an item"""
    lines = [strip_containers(l) for l in text.split("\n")]
    return any(re.match(r"^(?:[-*+]|\d+[.)]) +#{1,6} ", l) for l in lines) or \
        any(re.match(r"^ {2,}#{1,6} ", l.replace(">", " ")) for l in text.split("\n"))


def fmt(x, opts):
    from flowmark import reformat_text
    from flowmark.formats.flowmark_markdown import ListSpacing
    o = dict(opts)
    if isinstance(o.get("list_spacing"), str):
        o["list_spacing"] = ListSpacing(o["list_spacing"])
    return reformat_text(x, **o)


def lists_of(tree):
    out = []

    def walk(b):
        if b[0] == "list":
            out.append(dict(n=len(b[4]), single=all(len(li[1]) <= 1 for li in b[4]), tight=bool(b[3])))
            for li in b[4]:
                for c in li[1]:
                    walk(c)
        elif b[0] in ("doc", "li", "quote"):
            for c in b[1]:
                walk(c)
        elif b[0] in ("alert", "fndef"):
            for c in b[2]:
                walk(c)
    walk(tree)
    return out


def gaps_of(text):
    lines = text.split("\n")
    if lines and lines[-1] == "":
        lines.pop()
    nb, gaps = [], []
    g = 0
    for l in lines:
        if strip_containers(l) == "":
            g += 1
        else:
            nb.append(l)
            gaps.append(g)
            g = 0
    return nb, gaps[1:]       # gap before each non-blank line except the first


def later_items(nb):
    """per non-blank line: it starts a list item that is not the first item of its list (same marker column, list still open)"""
    open_cols, out = set(), []
    for l in nb:
        body = strip_containers(l)
        col = len(l) - len(body)
        if ITEM_RE.match(body):
            out.append(col in open_cols)
            open_cols = {c for c in open_cols if c <= col} | {col}
        else:
            out.append(False)
            open_cols = {c for c in open_cols if c < col}      # text at or left of a marker column ends that list
    return out


def _spacing(job):
    name, x, base, mode = job
    try:
        o0 = fmt(x, dict(base, list_spacing="preserve"))
        o1 = fmt(x, dict(base, list_spacing=mode))
    except BaseException as e:  # noqa: BLE001
        return dict(exc=repr(e))
    nb0, g0 = gaps_of(o0)
    nb1, g1 = gaps_of(o1)
    same = nb0 == nb1
    gaps = []
    if same:
        later = later_items(nb0)
        for j, (a, b) in enumerate(zip(g0, g1)):
            gaps.append(dict(g0=a, g1=b, item=bool(ITEM_RE.match(strip_containers(nb0[j + 1]))), later=later[j + 1]))
    l0, l1 = lists_of(project.parse_marko(o0)), lists_of(project.parse_marko(o1))
    aligned = len(l0) == len(l1) and all(a["n"] == b["n"] for a, b in zip(l0, l1))
    try:
        lin = lists_of(project.parse_marko(x))
    except BaseException:  # noqa: BLE001
        lin = []
    if not (len(lin) == len(l0) and all(a["n"] == b["n"] for a, b in zip(lin, l0))):
        lin = l0                      # the input's lists do not align with the output's: fall back to the preserve reading
    lists = [dict(n=a["n"], single=a["single"], t0=a["tight"], t1=b["tight"], tin=c["tight"]) for a, b, c in zip(l0, l1, lin)] if aligned else []
    # the modes are documented by their names ("preserve" / "loose" / "tight"; the config file passes them on as plain strings): the plain
    # string must select the same mode as the enum member
    try:
        from flowmark import reformat_text
        spelled = reformat_text(x, **dict(base, list_spacing=mode)) == o1 and reformat_text(x, **dict(base, list_spacing="preserve")) == o0
    except BaseException:  # noqa: BLE001
        spelled = False
    return dict(o0=o0, o1=o1, same_nonblank=same and aligned, gaps=gaps, lists=lists, spelled=spelled)


def _cleanups(job):
    name, x, base = job
    try:
        off = fmt(x, dict(base, cleanups=False))
        on = fmt(x, dict(base, cleanups=True))
    except BaseException as e:  # noqa: BLE001
        return dict(exc=repr(e))
    a, b = project.flat(project.parse_marko(off)), project.flat(project.parse_marko(on))
    return dict(off=off, on=on, a=a, b=b, opens={s: s.endswith("(") for s in set(a) | set(b)})


def run(tier: str) -> int:
    chk = Check("C10", tier, "model_checking")
    bound = (5, 3) if tier == "quick" else (6, 4)
    chk.rule = (f"documents: realisable list-bearing documents of the Render model (<= {bound[0]} nodes), {len(HEADINGS)} heading shapes, "
                f"{len(corpus.RICH)} corpus documents; x {{cleanups off/on}} and {{preserve -> loose, preserve -> tight, preserve -> preserve}} x other "
                "options; non-trivial = pair whose two outputs differ")
    chk.assumptions = ["trees are read by the real marko from both outputs; blank/non-blank and list-item lines are recognised by harness regexes"]
    model, mres = docs.model_docs(*bound)
    chk.add_tlc(mres)
    xs, seen = [], set()
    cand = [(toks, docgen.src(list(toks))) for toks in sorted(model) if any(t in ("Lt(", "Ll(") for t in toks)]
    for (toks, x), rt in zip(cand, pmap(c01._real, [x for _, x in cand], chunksize=200)):
        if rt is None or any(t not in docs.S_ALPHABET for t in rt) or tuple(rt) in seen:
            continue
        seen.add(tuple(rt))
        xs.append(("S:" + " ".join(rt), x))
    chk.notes["list_documents_from_model"] = len(xs)
    bases_s = [dict(width=88, semantic=False, cleanups=False)]
    bases_r = [dict(width=w, semantic=sem, cleanups=False, smartquotes=sq, ellipses=sq) for w in ((40, 0) if tier == "quick" else (88, 40, 20, 0))
               for sem in (False, True) for sq in (False, True)]
    sjobs = [(n, x, b, m) for n, x in xs for b in bases_s for m in ("loose", "tight", "preserve")]
    sjobs += [(n, x, b, m) for n, x in corpus.RICH + LIST_DOCS for b in bases_r for m in ("loose", "tight", "preserve")]
    traces, metas = [], {}
    tid = 0
    for job, r in zip(sjobs, pmap(_spacing, sjobs, chunksize=50)):
        chk.evaluations += 1
        if "exc" in r:
            chk.violation("NoException", dict(doc=job[0], opts=job[2], mode=job[3], exc=r["exc"]))
            continue
        tid += 1
        if not r["spelled"]:
            # informational only: the property does not say how a mode is named in the API; the config-file path (plain strings) is C16's
            chk.notes["mode_given_as_plain_string_differs"] = chk.notes.get("mode_given_as_plain_string_differs", 0) + 1
        traces.append(dict(id=tid, kind="spacing", mode=job[3], same_nonblank=r["same_nonblank"], gaps=r["gaps"], lists=r["lists"]))
        metas[tid] = dict(kind="spacing", doc=job[0], src=job[1], opts=job[2], mode=job[3], preserve_output=r["o0"], mode_output=r["o1"], lists=r["lists"])
        if r["o0"] != r["o1"]:
            chk.nontriv(("sp", job[0], job[3], json.dumps(job[2], sort_keys=True)))
    hdocs = [("H:" + h.split("\n")[0], h + "\n\nbody text\n") for h in HEADINGS]
    cjobs = [(n, x, b) for n, x in hdocs + corpus.RICH for b in [dict(width=88, semantic=False), dict(width=30, semantic=True, smartquotes=True, ellipses=True, list_spacing="loose")]]
    for job, r in zip(cjobs, pmap(_cleanups, cjobs, chunksize=20)):
        chk.evaluations += 1
        if "exc" in r:
            chk.violation("NoException", dict(doc=job[0], opts=job[2], exc=r["exc"]))
            continue
        tid += 1
        traces.append(dict(id=tid, kind="cleanups", off=r["a"], on=r["b"], opens=r["opens"]))
        metas[tid] = dict(kind="cleanups", doc=job[0], src=job[1], opts=job[2], off_output=r["off"], on_output=r["on"])
        if r["off"] != r["on"]:
            chk.nontriv(("cl", job[0], json.dumps(job[2], sort_keys=True)))
    reports, gen, dist = tlc.validate_traces("Transforms", traces, cfg=tlc.cfg_text(invariants=["Report"]), timeout=3000)
    chk.states += dist
    chk.transitions += gen
    chk.traces = len(traces)
    for t in traces:
        _, id_, ok, vec = reports[t["id"]]
        if not ok:
            m = metas[id_]
            # D31: a heading directly inside a list item is always followed by a blank line, so such a list cannot read tight
            if m["kind"] == "spacing" and m["mode"] == "tight" and "D31" in chk.open_findings and heading_in_item(m["preserve_output"]) \
                    and vec[:3] == [True, True, True] and vec[4]:         # only the "reads tight" clause fails
                chk.known_finding("D31", {k: m[k] for k in ("doc", "mode", "mode_output")})
                continue
            names = ["SameNonBlankLines", "BlankLinesOnlyBeforeItems", "GapDirection", "Tightness", "ItemsSeparated"]
            clause = "CleanupsOnlyUnbold" if m["kind"] == "cleanups" else f"Spacing({m['mode']}):" + "+".join(n for n, v in zip(names, vec) if not v)
            chk.violation(clause, m)
    for id_ in list(metas)[:: max(1, len(metas) // 5)][:5]:
        chk.sample(metas[id_])
    chk.exhaustive = True
    chk.explanation = "list-bearing documents of the model exhaustive up to the bound; heading shapes and corpus are fixed sets"
    return chk.finish()


def replay(path: str) -> int:
    v = json.loads(open(path).read())
    print(json.dumps(v, indent=1))
    return 0
