"""C06 — template tags and other atomic constructs are never split or displaced.

Leg A: TLC explores spec/Segments.tla -- add_tag_newline_handling around the greedy fill: segmentation at tag-adjacent
       newlines and block-looking lines, paired-tag tokens, denormalisation, blank-line joins, _fix_closing_tag_spacing,
       _fix_multiline_opening_tag_with_closing -- for every paragraph of <= 2-3 source lines x <= 2-3 words over {word,
       opening tag, closing tag, '-', '|x'} x widths x {plain, list item}; WordsPreserved and TagLinesStayAlone hold on
       every result; every behaviour is dumped.
Leg B: every behaviour is replayed into the real line_wrap_to_width(width, is_markdown=True) (and, for the property
       predicates only, line_wrap_by_sentence); a second family puts every kind of atomic construct (code span, link,
       image, the four tag kinds, HTML tags) into paragraphs at every width 1..24 in both wrap modes; a third family
       formats tag-delimited blocks holding prose, lists and tables through reformat_text.
Leg C: spec/SegTrace.tla validates each wrapper observation against the machine (drift) and evaluates the predicates on
       the observation; spec/WrapTrace.tla validates the atomic family (whole tokens, single spaces, width bound);
       the block family is decided on the real parse of the output (list/table present, tag lines alone, blank-line
       separated)."""
from __future__ import annotations

import json
import re

from harness import project, tlc, vocab
from harness.core import Check
from harness.par import pmap
from harness.props import c05

SP = {"w": "aaa", "T": "{% t %}", "C": "{% /t %}", "L": "-", "P": "|x"}
TOKENS = [("T", "{% t %}"), ("C", "{% /t %}"), ("w", "aaa"), ("P", "|x"), ("L", "-")]


def conc_src(src):
    return "\n".join(("  " if l["ind"] else "") + " ".join(SP[k] for k in l["ws"]) for l in src)


def parse_out(text: str, im: str):
    """real wrapper output -> (ok, line records in the shape of Segments.Result with paired tags expanded)"""
    recs = []
    lines = text.split("\n")
    for j, line in enumerate(lines):
        if line == "":
            recs.append(dict(ind="", toks=[]))
            continue
        ind, rest = "", line
        if im == "list" and j == 0 and line.startswith("- "):
            ind, rest = "i", line[2:]
        elif line.startswith("  "):
            ind, rest = "s", line[2:]
        toks, pos, glue_next = [], 0, False
        while pos < len(rest):
            hit = None
            esc = False
            if rest.startswith("\\-", pos):
                hit, esc, ln = "L", True, 2
            else:
                for k, s in TOKENS:
                    if rest.startswith(s, pos):
                        hit, ln = k, len(s)
                        break
            if hit is None:
                return False, []
            toks.append(dict(k=hit, glue=glue_next, esc=esc))
            pos += ln
            glue_next = False
            if pos < len(rest):
                if rest[pos] == " ":
                    pos += 1
                    if pos >= len(rest) or rest[pos] == " ":
                        return False, []
                elif toks[-1]["k"] in ("T", "C"):
                    glue_next = True
                else:
                    return False, []
        recs.append(dict(ind=ind, toks=toks))
    return True, recs


def _observe_seg(job):
    from flowmark.linewrapping.line_wrappers import line_wrap_by_sentence, line_wrap_to_width
    idx, src, width, im = job
    text = conc_src(src)
    ii, si = ("- ", "  ") if im == "list" else ("", "")
    out = {}
    for name, lw in (("fill", line_wrap_to_width(width=width, is_markdown=True)), ("sem", line_wrap_by_sentence(width=width, is_markdown=True))):
        try:
            r = lw(text, ii, si)
            ok, recs = parse_out(r, im)
            out[name] = dict(raw=r, ok=ok, obs=recs)
        except BaseException as e:  # noqa: BLE001
            out[name] = dict(exc=repr(e))
    return text, out


# ---------------- atomic constructs at every width ----------------
ATOMS = ["`c d`", "[l m](u v)", "{% t a=1 %}", "{{ v w }}", "{# c d #}", "<!-- c d -->", "<b c=\"d e\">", "</b>", "![i j](k l)", "[r s][t u]",
         "``e ` f``", "{% t %}{% /t %}", "<!-- a --><!-- /a -->", "{% if u %}{{ u.n }}{% endif %}", "{{ n }}{# c #}", "<!-- r -->{% cite %}", "<!-- see the --help option -->", "<!--- n o --->", "{# a # b #}", "{{ a } b }}"]
PLAINW = ["aa", "bbbb", "c"]


def atom_cases(tier):
    cases = []
    widths = range(1, 25) if tier == "thorough" else (1, 3, 6, 9, 12, 16, 24)
    n = 0
    for a in ATOMS:
        for pos in range(0, 4):
            for b in ([None] + ATOMS[:4]) if tier == "thorough" else [None, ATOMS[(n + 1) % len(ATOMS)]]:
                toks = PLAINW[:pos] + [a] + PLAINW[pos:][:3 - pos + 0]
                if b is not None:
                    toks = toks + [b]
                for w in widths:
                    for mode in ("fill", "sem"):
                        cases.append((n, toks, w, mode))
                n += 1
    return cases


def _observe_atom(job):
    from flowmark.linewrapping.line_wrappers import line_wrap_by_sentence, line_wrap_to_width
    n, toks, width, mode = job
    text = " ".join(toks)
    lw = line_wrap_to_width(width=width, is_markdown=True) if mode == "fill" else line_wrap_by_sentence(width=width, is_markdown=True)
    try:
        r = lw(text, "", "")
    except BaseException as e:  # noqa: BLE001
        return dict(exc=repr(e), text=text)
    a = vocab.abstract_lines(toks, r.split("\n") if r else [], "", "", True)
    a["raw"] = r
    return a


# ---------------- tag-delimited blocks through the whole pipeline ----------------
TAGPAIRS = [("{% if c %}", "{% else %}"), ("<!-- begin -->", "<!-- middle -->"), ("{% field %}", "{% /field %}"), ("<!-- f:field -->", "<!-- /f:field -->"), ("{# note #}", "{# /note #}"), ("{{ open }}", "{{ /open }}")]
BODIES = [("list_tab", "- first\n\t- nested by tab", "list"), ("list_nested", "- first\n  - nested", "list"), ("list", "- item one\n- item two", "list"), ("olist", "1. first\n2. second", "list"), ("table", "| a | b |\n|---|---|\n| 1 | 2 |", "table"),
          ("prose", "Some prose text that is long enough to wrap at narrow widths, certainly.", "p"),
          ("tasks", "- [ ] open {% #id1 %}\n- [x] done {% #id2 %}", "list")]


def block_cases(tier):
    cases = []
    for (o, c) in TAGPAIRS:
        for bname, body, kind in BODIES:
            for blank in (False, True):
                # trailing invisible whitespace on the tag lines (space, tab) and CRLF line ends must not matter
                for trail, eol in (("", "\n"), (" ", "\n"), ("\t", "\n"), ("", "\r\n")):
                    sep = eol * 2 if blank else eol
                    src = f"Intro paragraph.{eol}{eol}{o}{trail}{sep}{body.replace(chr(10), eol)}{sep}{c}{trail}{eol}{eol}Outro paragraph.{eol}"
                    # a uniformly indented document (pasted from a docstring) is dedented first: the tag lines are then unindented
                    for ind in ("", "  ", "    "):
                        if ind and (trail or eol != "\n"):
                            continue
                        isrc = "".join(ind + l if l.strip() else l for l in src.splitlines(True))
                        for w in ((20, 88) if tier == "quick" else (10, 20, 40, 88)):
                            for sem in (False, True):
                                if tier == "quick" and (trail + eol != "\n" or ind) and (w, sem) != (88, False):
                                    continue
                                cases.append((o, c, bname, kind, isrc, dict(width=w, semantic=sem, cleanups=False)))
    # the same blocks inside a block quote: the re-separation must not split the quote
    for (o, c) in TAGPAIRS:
        for bname, body, kind in BODIES:
            if bname == "tasks":
                continue
            inner = f"Intro paragraph.\n\n{o}\n{body}\n{c}\n\nOutro paragraph."
            qsrc = "\n".join(("> " + l) if l else ">" for l in inner.split("\n")) + "\n"
            for w in ((88,) if tier == "quick" else (20, 88)):
                for sem in (False, True):
                    cases.append((o, c, bname + "@quote", kind, qsrc, dict(width=w, semantic=sem, cleanups=False)))
    return cases


def _observe_block(job):
    from flowmark import reformat_text
    o, c, bname, kind, src, opts = job
    try:
        out = reformat_text(src, **opts)
        out2 = reformat_text(out, **opts)
    except BaseException as e:  # noqa: BLE001
        return dict(exc=repr(e))
    lines = out.split("\n")
    res = dict(out=out, idem=out == out2)
    if bname.endswith("@quote"):
        tree = project.parse_marko(out)
        res["one_quote"] = [k[0] for k in tree[1]] == ["quote"]
        lines = [l[2:] if l.startswith("> ") else l[1:] if l.startswith(">") else l for l in lines]
    res["open_alone"] = o in lines
    res["close_alone"] = c in lines
    flat = project.flat(project.parse_marko(out))
    res["has_block"] = any(s.startswith("list:") for s in flat) if kind == "list" else any(s == "table(" for s in flat) if kind == "table" else True
    if kind in ("list", "table") and res["open_alone"] and res["close_alone"]:
        i, j = lines.index(o), lines.index(c)
        res["separated"] = i + 1 < len(lines) and lines[i + 1] == "" and lines[j - 1] == ""
    else:
        res["separated"] = True
    return res


def split_pair(m) -> bool:
    """D40: restoring every 'opening tag<newline>closing tag' split of an authored adjacent pair (on a line that starts with other
    text) gives exactly the input's tokens with single spaces"""
    out = m["output"]
    pairs = [t for t in m["tokens"] if re.fullmatch(r"(\{%.*?%\}|<!--.*?-->)(\{% /.*?%\}|<!-- /.*?-->)", t)]
    if not pairs:
        return False
    fixed = out
    for t in set(pairs):
        mm = re.fullmatch(r"(\{%.*?%\}|<!--.*?-->)(\{% /.*?%\}|<!-- /.*?-->)", t)
        fixed = re.sub(r"(?m)^(?!\{%|<!--)(.*)" + re.escape(mm.group(1)) + r"\n" + re.escape(mm.group(2)), lambda x: x.group(1) + t, fixed)
    return fixed != out and " ".join(fixed.split("\n")) == " ".join(m["tokens"])


def run(tier: str) -> int:
    chk = Check("C06", tier, "model_checking")
    consts = dict(MaxLines=2, MaxWords=2 if tier == "quick" else 3, Widths={12, 20}, IndentModes={"plain", "list"})
    chk.rule = (f"segments family: every behaviour of spec/Segments.tla (<= {consts['MaxLines']} source lines x <= {consts['MaxWords']} words over "
                "{word, opening tag, closing tag, -, |x}, indented or not, widths 12/20, plain / list item); atomic family: 13 atomic constructs x "
                "positions x partner construct x widths x {fill, semantic}; block family: 4 tag kinds x 5 bodies x with/without blank lines x {plain, trailing space/tab, CRLF, whole document indented by 2/4} x widths x "
                "modes; non-trivial = behaviour whose source contains a tag / atomic case with >= 2 output lines / every block case")
    chk.assumptions = ["outputs are parsed back with the fixed token set of the model (any other text = not ok)"]
    res = tlc.run_tlc("Segments", tlc.cfg_text(constants=dict(consts, DoDump=True), invariants=["ModelProps", "Report"]), coverage=True, timeout=3000)
    chk.add_tlc(res)
    beh = sorted((r for r in res.reports if r and r[0] == "G"), key=json.dumps)
    chk.notes["model_behaviours"] = len(beh)
    jobs = [(i, b[1], b[2], b[3]) for i, b in enumerate(beh)]
    traces, metas = [], {}
    tid = 0
    for (i, src, width, im), (text, out) in zip(jobs, pmap(_observe_seg, jobs, chunksize=500)):
        for mode in ("fill", "sem"):
            o = out[mode]
            chk.evaluations += 1
            if "exc" in o:
                chk.violation("NoException", dict(text=text, width=width, im=im, mode=mode, exc=o["exc"]))
                continue
            tid += 1
            traces.append(dict(id=tid, src=src, width=width, im=im, ok=o["ok"], obs=o["obs"]))
            metas[tid] = dict(text=text, width=width, im=im, mode=mode, output=o["raw"])
            if any(k in ("T", "C") for l in src for k in l["ws"]):
                chk.nontriv((i, mode))
    reports, gen, dist = tlc.validate_traces("SegTrace", traces, cfg=tlc.cfg_text(spec="TraceSpec", constants=dict(consts, DoDump=False),
                                                                                  invariants=["TraceReport"]), timeout=3000)
    chk.states += dist
    chk.transitions += gen
    chk.traces += len(traces)
    glued_cases = 0
    for t in traces:
        _, id_, acc, ok, words, alone, blocksep, glued = reports[t["id"]]
        m = metas[id_]
        fails = [n for n, v in (("AtomsWhole", ok), ("WordsPreserved", words), ("TagLinesStayAlone", alone)) if not v]
        if fails:
            chk.violation("+".join(fails), m)
            continue
        if glued:
            # every source word of the model is separated by a space, so a glued pair is an author-written space removed
            glued_cases += 1
            if "D22" in chk.open_findings and (acc or m["mode"] == "sem"):
                chk.known_finding("D22", m)
            else:
                chk.violation("SeparatedTagsStaySeparated", m)
        if m["mode"] == "fill" and not acc:
            chk.drift_note(m)
    chk.notes["cases_with_removed_space_between_tags"] = glued_cases
    # ---- atomic constructs ----
    acases = atom_cases(tier)
    wtr, wmeta = [], {}
    for tid2, (job, a) in enumerate(zip(acases, pmap(_observe_atom, acases, chunksize=200)), 1):
        chk.evaluations += 1
        if "exc" in a:
            chk.violation("NoException", a)
            continue
        n, toks, width, mode = job
        words = [dict(k="p", n=len(t)) for t in toks]
        wtr.append(c05._mk_trace(tid2, words, width, 0, 0, True, a, impl="none", maximal=False))
        wmeta[tid2] = dict(tokens=toks, width=width, mode=mode, output=a["raw"])
        if len(a["out"]) > 1:
            chk.nontriv(("atom", tid2))
    wrep, g2, d2 = tlc.validate_traces("WrapTrace", wtr, cfg=c05.TRACE_CFG, timeout=3000)
    chk.states += d2
    chk.transitions += g2
    chk.traces += len(wtr)
    for t in wtr:
        rep = wrep[t["id"]]
        lossless, bl = rep[3], rep[6]
        m = wmeta[t["id"]]
        if not lossless:
            # adjacent tags written with a space are glued by denormalisation: D22
            if "D22" in chk.open_findings and re.search(r"(%\}|#\}|\}\}|-->) (\{%|\{#|\{\{|<!--)", " ".join(m["tokens"])):
                chk.known_finding("D22", m)
            elif "D40" in chk.open_findings and split_pair(m):
                chk.known_finding("D40", m)
            else:
                chk.violation("AtomicConstructWholeAndSpacingKept", m)
        elif not all(bl):
            chk.violation("OverlongLineCouldBreakAtSpace", m)
    # ---- tag-delimited blocks ----
    bcases = block_cases(tier)
    for job, r in zip(bcases, pmap(_observe_block, bcases, chunksize=20)):
        chk.evaluations += 1
        chk.nontriv(("blk", job[0], job[2], job[4][:30], json.dumps(job[5], sort_keys=True)))
        m = dict(open=job[0], body=job[2], src=job[4], opts=job[5], out=r.get("out"))
        if "exc" in r:
            chk.violation("NoException", dict(m, exc=r["exc"]))
            continue
        if job[2].endswith("@quote"):
            # the promise about tag lines is for unindented lines; inside a quote only the quote itself is at stake
            fails = [] if r["one_quote"] else ["QuoteStaysOneQuote"]
        else:
            fails = [n for n, v in (("TagLineAlone", r["open_alone"] and r["close_alone"]), ("BlockStaysBlock", r["has_block"]),
                                    ("BlankLineSeparated", r["separated"])) if not v]
        if fails:
            chk.violation("+".join(fails), m)
    for id_ in list(metas)[:: max(1, len(metas) // 3)][:3]:
        chk.sample(metas[id_])
    chk.sample(dict(atomic=wmeta[next(iter(wmeta))]))
    chk.exhaustive = True
    chk.explanation = "Segments.tla explored completely and every behaviour replayed; atomic and block families are fixed enumerations"
    return chk.finish()


def replay(path: str) -> int:
    v = json.loads(open(path).read())
    print(json.dumps(v, indent=1))
    return 0
