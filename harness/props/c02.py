"""C02 — formatting is idempotent: f(f(x, o), o) = f(x, o) bytewise.

Leg A: the renderer/reader composition (RenderRead.tla, shared with C01) is explored by TLC for the bounded document
       space; in the model a second pass is Render(Read+(Render(d))).
Leg B: every realisable document of family S, the text family T (structure-looking words at wrap points, C01), and a
       corpus of construct-rich documents under the full option cube (width x {fill, semantic} x cleanups x smartquotes x
       ellipses x list-spacing, and plaintext) are formatted twice by the real reformat_text; a subset goes through the CLI
       with --inplace twice.
Leg C: spec/IdemTrace.tla validates each pair: byte digests equal (verdict), abstracted lines equal, and for family S
       the second pass is itself a behaviour of the renderer machine."""
from __future__ import annotations

import hashlib
import json
import re
import os
import shutil
import subprocess
import tempfile

from harness import corpus, docgen, docs, tlc
from harness.core import PY, REPO, Check
from harness.par import pmap
from harness.props import c01


def dig(s: str) -> str:
    return hashlib.sha1(s.encode("utf-8", "surrogatepass")).hexdigest()[:12]


def eval_pair(job):
    fam, name, x, opts = job
    from flowmark import reformat_text
    from flowmark.formats.flowmark_markdown import ListSpacing
    o = dict(opts)
    if isinstance(o.get("list_spacing"), str):
        o["list_spacing"] = ListSpacing(o["list_spacing"])
    try:
        o1 = reformat_text(x, **o)
        o2 = reformat_text(o1, **o)
    except BaseException as e:  # noqa: BLE001
        return dict(exc=repr(e))
    r = dict(o1=o1, o2=o2, d1=dig(o1), d2=dig(o2), toks2=[], lines1=[], lines2=[])
    if fam == "S":
        try:
            r["toks2"] = docgen.real_toks(o1)
        except BaseException:  # noqa: BLE001
            r["toks2"] = ["?"]
        r["lines1"], r["lines2"] = docgen.abslines(o1), docgen.abslines(o2)
        # a table that absorbed a following text line has a row the token alphabet cannot express: no machine acceptance for it
        canon = {"| a | b |", "| --- | --- |", "| 1 | 2 |"}
        if any(l.lstrip(" >-").startswith("|") and l.lstrip(" >-") not in canon for l in o1.split("\n")):
            r["toks2"] = ["?"]
    return r


def cli_twice(job):
    name, x, argv = job
    d = tempfile.mkdtemp(prefix="c02-")
    try:
        p = os.path.join(d, "f.md")
        open(p, "w").write(x)
        env = dict(os.environ, PYTHONPATH=f"{REPO}/src")
        outs = []
        for _ in range(2):
            r = subprocess.run([PY, "-m", "flowmark.cli", "--inplace", "--nobackup"] + argv + [p], capture_output=True, env=env, timeout=120)
            if r.returncode != 0:
                return dict(exc=r.stderr.decode()[-300:])
            outs.append(open(p).read())
        return dict(o1=outs[0], o2=outs[1])
    finally:
        shutil.rmtree(d, ignore_errors=True)


def run(tier: str) -> int:
    chk = Check("C02", tier, "model_checking")
    bound = (5, 3) if tier == "quick" else (6, 4)
    chk.rule = (f"family S: realisable documents of RenderRead.tla (<= {bound[0]} nodes) x 2 option sets; family T (C01's text family); family R: "
                "44 construct-rich / quote- / dot-bearing documents x the option cube (quick: 4 widths, reduced cube; thorough: 7 widths x full 2^3 x 3 cube) "
                "+ plaintext; CLI --inplace twice on a subset; non-trivial = distinct (document, options) pair whose first pass changes the input")
    chk.assumptions = ["byte equality is judged on Python strings returned by reformat_text and on file bytes for the CLI subset"]
    model, mres = docs.model_docs(*bound)
    chk.add_tlc(mres)
    model2, mres2 = docs.model_docs(*((4, 3) if tier == "quick" else (5, 3)), leafs={"P", "H", "B", "C", "T", "R"})     # tables and rules
    chk.add_tlc(mres2)
    model = {**model2, **model}
    model3, mres3 = docs.model_docs(*((7, 5) if tier == "quick" else (9, 5)), leafs={"P", "B"})        # deep nesting, paragraphs and blank lines only
    chk.add_tlc(mres3)
    model = {**model3, **model}
    jobs = []
    seen = set()
    xs = [(toks, docgen.src(list(toks))) for toks in sorted(model)] + [(w, docgen.src(list(w))) for w in c01.WITNESS_S]
    for (toks, x), rt in zip(xs, pmap(c01._real, [x for _, x in xs], chunksize=200)):
        if rt is None or any(t not in docs.S_ALPHABET for t in rt) or tuple(rt) in seen:
            continue
        seen.add(tuple(rt))
        for o in c01.OPTS_S:
            jobs.append(("S", "S", x, o))
    for cname, sfirst, ii, si, toks, w, mode in c01.t_cases(tier):
        x = sfirst + " ".join(toks) + "\n"
        if cname == "footnote":
            x = "ref[^1]\n\n" + x
        T_INFO[x] = (toks, ii, si)
        jobs.append(("T", cname, x, dict(width=w, semantic=(mode == "sem"), cleanups=False)))
    cube = corpus.option_cube(tier)
    from harness import typo
    from harness.props import c09
    from harness.props import c10
    hdocs = [("h:" + h.split("\n")[0], h + "\n\nbody text\n") for h in c10.HEADINGS]
    # paragraphs written on ONE source line whose first pass wraps next to a paired tag (the pair is split by the Markdoc workaround:
    # that must happen in the first pass, not in the second)
    tdocs = [("t:pair_late", "Some text here that goes on and on for a while, yes it does. And more {% field %}{% /field %} after and the rest of it is here too.\n\n"
                             "- The first sentence of this list item is fairly ordinary prose text. The second has <!-- f --><!-- /f --> in it and continues a bit more.\n\n"
                             "> A quoted paragraph that is long enough that it has to wrap and then has a {# n #}{# /n #} pair and {{ v }}{{ /v }} too, at the end of it.\n")]
    tdocs += [("ws:crlf", "# T\r\n\r\ntext here\r\n\r\n"), ("ws:crlf_lead", "\r\n\r\n# T\r\n\r\ntext\r\n"), ("ws:ff", "\x0c\n# T\n\ntext\n\x0c\n"),
              ("ws:nbsp", "\xa0\n\ntext para\n\n\xa0\n"), ("ws:lead", "\n\n  \ntext\n\n\n"), ("ws:tab", "\t\n- a\n- b\n \t \n"), ("ws:vt", "\x0b\ntext\n\x0b\n"),
              ("ws:ideographic", "\u3000\ntext\n\u2028\n")]
    for name, text in corpus.RICH + corpus.FINDING_DOCS + [("q:" + n, t) for n, t in typo.QUOTE_DOCS] + [("e:" + n, t) for n, t in c09.DOT_DOCS] + hdocs + tdocs:
        for o in cube:
            jobs.append(("R", name, text, o))
    # blocks that interrupt a paragraph (no blank line between the two), at the top level and at the start of a quote
    sn = dict(c01.SNIPPETS)
    for na in c01.PARA_LIKE:
        for nb in c01.INTERRUPTERS:
            for o in cube:
                jobs.append(("R", f"adj:{na}/{nb}", sn[na] + "\n" + sn[nb] + "\n", o))
    for nb in c01.INTERRUPTERS:
        for o in cube:
            jobs.append(("R", f"adjq:{nb}", c01.wrap_in("> ", "> ", sn[nb]) + "\n", o))
    # family C (C01's): every block snippet inside every container, first in the container and after a leading paragraph
    for c in c01.CONTAINERS_C:
        for lead in ("", "lead text"):
            for na, a in c01.SNIPPETS:
                if na in ("def", "footnote") and c[0] != "quote":
                    continue
                body = (lead + "\n\n" + a) if lead else a
                x = ("ref[^1]\n\n" if c[0] == "footnote" else "") + c01.wrap_in(c[1], c[2], body) + "\n\nafter\n"
                for o in (dict(width=88, semantic=False, cleanups=False), dict(width=20, semantic=True, cleanups=True, smartquotes=True, ellipses=True)):
                    jobs.append(("R", f"c:{c[0]}{'+lead' if lead else ''}/{na}", x, o))
    results = pmap(eval_pair, jobs, chunksize=100)
    traces, metas = [], {}
    for tid, (job, r) in enumerate(zip(jobs, results), 1):
        fam, name, x, opts = job
        chk.evaluations += 1
        if "exc" in r:
            chk.violation("NoException", dict(fam=fam, doc=name, src=x, opts=opts, exc=r["exc"]))
            continue
        traces.append(dict(id=tid, fam=fam, toks2=r["toks2"] if all(t in docs.S_ALPHABET for t in r["toks2"]) else ["P"],
                           lines1=r["lines1"], lines2=r["lines2"], d1=r["d1"], d2=r["d2"]))
        if fam == "S" and not all(t in docs.S_ALPHABET for t in r["toks2"]):
            traces[-1]["fam"] = "Sx"           # output left the model's alphabet: machine acceptance not applicable
        metas[tid] = dict(fam=fam, doc=name, src=x, opts=opts, pass1=r["o1"], pass2=r["o2"])
        if r["o1"] != x:
            chk.nontriv((fam, name, docs.dumps(opts), x if fam != "R" else ""))
    reports, gen, dist = tlc.validate_traces("IdemTrace", traces, cfg=docs.DOC_TRACE_CFG, timeout=3000)
    chk.states += dist
    chk.transitions += gen
    chk.traces = len(traces)
    fails = []
    for t in traces:
        _, id_, acc2, same_bytes, same_lines = reports[t["id"]]
        m = metas[id_]
        if not same_bytes:
            m["acc2"] = bool(acc2) and t["fam"] == "S"      # the as-is renderer machine emits exactly the lines of the second pass
            fails.append((t, m))
        elif t["fam"] == "S" and not acc2:
            chk.drift_note(dict(m, why="second pass is not a behaviour of the renderer machine"))
    attribute(chk, fails)
    # CLI --inplace twice
    cli_jobs = []
    for name, text in corpus.RICH[:: (4 if tier == "quick" else 1)]:
        for argv in (["-w", "40"], ["--auto"], ["-w", "20", "-s", "--list-spacing", "loose"], ["-p", "-w", "30"]):
            if "--auto" in argv:
                argv = ["--semantic", "--cleanups", "--smartquotes", "--ellipses"]
            cli_jobs.append((name, text, argv))
    from concurrent.futures import ThreadPoolExecutor
    with ThreadPoolExecutor(16) as ex:
        for job, r in zip(cli_jobs, ex.map(cli_twice, cli_jobs)):
            chk.evaluations += 1
            if "exc" in r:
                chk.violation("NoException(cli)", dict(doc=job[0], argv=job[2], exc=r["exc"]))
            elif r["o1"] != r["o2"]:
                attribute(chk, [(None, dict(fam="R", doc=job[0], src=job[1], opts=dict(cli=job[2]), pass1=r["o1"], pass2=r["o2"]))])
    from harness import inline
    inline.judge(chk, tier, "C02")
    from harness import table
    table.judge(chk, tier, "C02")
    from harness import link
    link.judge(chk, tier, "C02")
    from harness import lineends
    lineends.judge(chk, tier, "C02")
    for id_ in list(metas)[:: max(1, len(metas) // 5)][:5]:
        chk.sample({k: (v if k != "pass2" else "(same)" if v == metas[id_]["pass1"] else v) for k, v in metas[id_].items()})
    chk.exhaustive = False
    chk.explanation = "model space explored completely; families S and T exhaustive within bounds; family R is a fixed corpus x option cube"
    return chk.finish()


def attribute(chk: Check, fails) -> None:
    """Known findings for C02 are keyed to (document of the corpus / family, trigger in the option set)."""
    KF_OPEN.update(chk.open_findings)
    for t, m in fails:
        by = chk.notes.setdefault("idem_failures_by_doc", {})
        by[f"{m['fam']}/{m['doc']}"] = by.get(f"{m['fam']}/{m['doc']}", 0) + 1
        fid = finding_for(m)
        if fid and fid in chk.open_findings:
            chk.known_finding(fid, {k: m[k] for k in ("fam", "doc", "opts")})
        else:
            info = dict(m)
            a, b = m["pass1"].split("\n"), m["pass2"].split("\n")
            j = next((i for i in range(min(len(a), len(b))) if a[i] != b[i]), min(len(a), len(b)))
            info["first_diff_line"] = j
            info["pass1_at"], info["pass2_at"] = a[max(0, j - 1): j + 2], b[max(0, j - 1): j + 2]
            info["pass1"], info["pass2"] = m["pass1"][:1500], m["pass2"][:1500]
            chk.violation("Idempotent", info)


T_INFO: dict = {}


PAIR_SPLIT = re.compile(r"(\{%[^\n]*?%\}|\{#[^\n]*?#\}|\{\{[^\n]*?\}\}|<!--[^\n]*?-->)\n[ >]*(\{% */[^\n]*?%\}|\{# */[^\n]*?#\}|\{\{ */[^\n]*?\}\}|<!-- */[^\n]*?-->)")


def split_pair_blocks(m) -> bool:
    b1, b2 = m["pass1"].split("\n\n"), m["pass2"].split("\n\n")
    if len(b1) != len(b2):
        return False
    differing = [(x, y) for x, y in zip(b1, b2) if x != y]
    if not differing:
        return False
    for x, _ in differing:
        hits = [mm for mm in PAIR_SPLIT.finditer(x) if (mm.group(1) + mm.group(2)) in m["src"]]
        if not hits:
            return False
    return True


KF_OPEN: set = set()


def _d57(src):
    from harness import corpus as _c
    return _c.d57_trigger(src)


def d44_shape(tree) -> bool:
    """some item of a tight list holds a loose list that is not its first block"""
    def walk(n):
        if not isinstance(n, tuple):
            return False
        if n[0] == "list":
            tight = n[3]
            for li in n[4]:
                kids = li[1] if li and li[0] == "li" else []
                if tight and any(k[0] == "list" and not k[3] for k in kids[1:]):
                    return True
                if any(walk(k) for k in kids):
                    return True
            return False
        for part in n[1:]:
            if isinstance(part, list) and any(walk(k) for k in part):
                return True
        return False
    return walk(tree)


def d44_first_shape(tree, all_loose: bool = False, any_enclosing: bool = False) -> bool:
    """some item of a LOOSE list starts with a loose list (all_loose: list-spacing=loose renders every list loose; any_enclosing: C01's use, where the separator in front of the enclosing marker is
    neutralised and the trees compared, whatever the enclosing list is) (the items of a tight list write no separator and leave the pending one alone: no
    defect there, and a change that makes them consume it is reported)"""
    def walk(n):
        if not isinstance(n, tuple):
            return False
        if n[0] == "list":
            for li in n[4]:
                kids = li[1] if li and li[0] == "li" else []
                if (all_loose or any_enclosing or not n[3]) and kids and kids[0][0] == "list" and (all_loose or not kids[0][3]):
                    return True
                if any(walk(k) for k in kids):
                    return True
            return False
        for part in n[1:]:
            if isinstance(part, list) and any(walk(k) for k in part):
                return True
        return False
    return walk(tree)


def finding_for(m) -> str | None:
    """C02 failures that are consequences of an open C01 finding: the first pass already changed the document
    structure (so the second pass formats a different document) and the finding's trigger is present."""
    from harness import project, vocab
    # D37: with smart quotes on, the second pass converts straight quotes the first pass left (adjacent / nested quotations):
    # same length, and every difference is a straight quote turned into a curly quote of its family
    if (m["opts"].get("smartquotes") or "--smartquotes" in m["opts"].get("cli", [])) and len(m["pass1"]) == len(m["pass2"]):
        fam = {'"': "“”", "'": "‘’"}
        diffs = [(a, b) for a, b in zip(m["pass1"], m["pass2"]) if a != b]
        if diffs and all(a in fam and b in fam[a] for a, b in diffs):
            return "D37"
    # D40 (C06's finding) seen from C02: the first pass wraps a one-line paragraph and then splits an authored adjacent tag pair
    # on a continuation line (Markdoc workaround); the new line break is tag-adjacent, hence significant for the second pass, which
    # re-fills / re-indents that paragraph.  Attributed only if EVERY block that differs between the passes holds such a split pair
    # that is adjacent in the source.
    if split_pair_blocks(m):
        return "D40"
    if "D57" in KF_OPEN and _d57(m["src"]):
        return "D57"
    # D56: the first pass joined a bare footnote label line with its indented continuation into a definition
    from harness import corpus as _corpus
    if _corpus.d56_trigger(m["src"]):
        # ... or the label stays alone on its line (narrow widths) and the passes differ only inside the block that starts with a label
        b1, b2 = m["pass1"].split("\n\n"), m["pass2"].split("\n\n")
        if len(b1) == len(b2) and all(x == y or re.match(r"[ >]*\[\^[^\]\n]+\]:", x) for x, y in zip(b1, b2)):
            return "D56"
    if _corpus.d56_trigger(m["src"]) and not _corpus.d56_trigger(m["pass1"]):
        try:
            f0, f1 = project.flat(project.parse_marko(m["src"])), project.flat(project.parse_marko(m["pass1"]))
            if sum(s.startswith("fndef:") for s in f1) > sum(s.startswith("fndef:") for s in f0):
                return "D56"
        except BaseException:  # noqa: BLE001
            pass
    # D59: the passes differ only by the trailing space of prefix-only lines inside quotes ('>' vs '> ')
    l1, l2 = m["pass1"].split("\n"), m["pass2"].split("\n")
    if "D59" in KF_OPEN and len(l1) == len(l2):
        diff = [(a, b) for a, b in zip(l1, l2) if a != b]
        if diff and all(a.strip(" >") == "" and b.strip(" >") == "" and ">" in a and a.rstrip() == b.rstrip() for a, b in diff):
            return "D59"
    # D44, second face: a loose list that OPENS an item writes its separator before the marker of that item (a blank line in front of the
    # enclosing item; inside a quote '>' first and '> ' + '>' after the next pass).  Attributed only if the source has that shape and the two
    # passes differ by nothing but blank / prefix-only lines
    # family S: the renderer machine decides -- the second pass is exactly what the as-is machine emits (a change of the separator logic is not
    # excused, whatever the shape) and the source has the shape of D44's second face, with any enclosing list
    if m.get("acc2") and "D44" in KF_OPEN and d44_first_shape(project.parse_marko(m["src"]), any_enclosing=True):
        if [l.rstrip() for l in m["pass1"].split("\n") if l.strip(" >") != ""] == [l.rstrip() for l in m["pass2"].split("\n") if l.strip(" >") != ""]:
            return "D44"
    loose_mode = m["opts"].get("list_spacing") == "loose" or "loose" in m["opts"].get("cli", [])
    if "D44" in KF_OPEN and d44_first_shape(project.parse_marko(m["src"]), loose_mode):
        def solid(text):
            return [l.rstrip() for l in text.split("\n") if l.strip(" >") != ""]
        if solid(m["pass1"]) == solid(m["pass2"]):
            return "D44"
    try:
        changed = project.flat(project.parse_marko(m["src"])) != project.flat(project.parse_marko(m["pass1"]))
    except BaseException:  # noqa: BLE001
        return None
    if not changed:
        return None
    # D44 (C01): the first pass turned a tight list loose because an item holds [block, loose list]; the second pass formats that other document
    if "D44" in KF_OPEN and d44_shape(project.parse_marko(m["src"])):
        a, b = project.flat(project.parse_marko(m["src"])), project.flat(project.parse_marko(m["pass1"]))
        if len(a) == len(b) and all(x == y or (x.startswith("list:") and x.replace(":tight(", ":loose(") == y) for x, y in zip(a, b)):
            return "D44"
    if m["fam"] == "S":
        try:
            rt = docgen.real_toks(m["src"])
        except BaseException:  # noqa: BLE001
            return None
        return "D31" if docs.heading_in_tight_item(rt) else None
    if m["fam"] == "T":
        info = T_INFO.get(m["src"])
        if not info:
            return None
        toks, ii, si = info
        lines = m["pass1"].split("\n")
        start = next((j for j, l in enumerate(lines) if l.startswith(ii + toks[0])), None)
        if start is None:
            return None
        para = []
        for l in lines[start:]:
            if l.strip() in ("", si.strip()):
                break
            para.append(l)
        a = vocab.abstract_lines(toks, para, ii, si, True)
        if not a["ok"]:
            return None
        kinds = [c01.kind_of(t) for t in toks]
        if m["opts"].get("semantic") and any(kinds[l[0]["w"] - 1] in ("h", "n", "x") and not l[0]["e"] for l in a["out"][1:]):
            return "D21"
        if any(kinds[l[-1]["w"] - 1] == "b" for l in a["out"][:-1]):
            return "D2"
    return None


def replay(path: str) -> int:
    v = json.loads(open(path).read())
    c = v["case"]
    print(json.dumps({k: c[k] for k in c if k not in ("pass1", "pass2")}, indent=1))
    if "src" in c and "cli" not in c.get("opts", {}):
        r = eval_pair((c["fam"], c.get("doc"), c["src"], c["opts"]))
        print(repr(r.get("o1")), repr(r.get("o2")), sep="\n")
    return 0
