"""C17 — file discovery returns exactly the wanted files, deterministically.

Leg A: TLC explores spec/Resolve.tla: resolve() as a machine (ArgFile / ArgDir / ArgGlob with seen/result, then Sort)
       over a 13-entry universe (sizes at/over the limit, default- and user-excluded directories, .flowmarkignore,
       symlinks to a file inside / outside / dangling / to a directory) x 96 settings x all argument lists up to the
       bound, against the declarative reading Must/May of the property: Complete, SoundK (known findings carved
       out by their triggers), OrderFree.
Leg B: each point is materialised on disk; FileResolver.resolve(args), the reversed argument list, and (a subset)
       `flowmark --list-files` are observed; the directory listing order is permuted by wrapping os.walk/scandir.
Leg C: spec/ResolveTrace.tla decides Must <= result <= Must u May, classifies extra files by the finding triggers,
       and compares with the machine (drift)."""
from __future__ import annotations

import json
import os
import shutil
import tempfile

from harness import tlc
from harness.core import Check
from harness.par import pmap

LIMIT = 100
FILES = {1: "a.md", 2: "b.txt", 3: "big.md", 4: "eq.md", 5: "ign.md", 6: "node_modules/x.md", 7: "sub/c.md", 8: "sub/deep/d.md",
         9: "drafts/e.md", 13: "sub/f.txt", 14: "notes.md/raw.dat", 15: "notes.md/in.md", 17: "other/sub/c2.md", 18: "other/keep.md", 19: "other/sub/ign.md"}
IMPL = dict(GlobFilters=True, WalkSkipsLinks=True, ForceAppliesIgnore=False)     # FALSE = behaviour of an open finding


def make_tree(root, toolign, above=False):
    t = os.path.join(root, "tree")
    for rel in FILES.values():
        p = os.path.join(t, rel)
        os.makedirs(os.path.dirname(p), exist_ok=True)
        n = LIMIT + 1 if rel == "big.md" else LIMIT if rel == "eq.md" else 2
        open(p, "w").write("x" * n)
    os.makedirs(os.path.join(root, "outside"))
    open(os.path.join(root, "outside", "o.md"), "w").write("out")
    os.symlink("a.md", os.path.join(t, "ln_in.md"))
    os.symlink("big.md", os.path.join(t, "ln_big.md"))
    os.symlink("../outside/o.md", os.path.join(t, "ln_out.md"))
    os.symlink("nonexist.md", os.path.join(t, "ln_dangling.md"))
    os.symlink("sub", os.path.join(t, "ln_dir"))
    if toolign:
        # the ignore file applies from the directory that holds it downwards: in the working directory or in a strict ancestor of it
        open(os.path.join(root if above else t, ".flowmarkignore"), "w").write("# rules\nign.md\n")
        open(os.path.join(t, "other", ".flowmarkignore"), "w").write("sub/\n")        # the second project's own ignore file
    return t


def ident(path, t, root):
    rel = os.path.relpath(path, t)
    for i, r in FILES.items():
        if rel == r:
            return i
    if os.path.normpath(path) == os.path.join(root, "outside", "o.md"):
        return 99
    if rel == "nonexist.md":
        return 98
    return 97


def _observe(job):
    from flowmark.file_resolver import FileResolver, FileResolverConfig
    idx, st, args, with_cli, shuffle = job
    root = os.path.realpath(tempfile.mkdtemp(prefix="c17-"))
    cwd0 = os.getcwd()
    try:
        t = make_tree(root, st["toolign"], above=bool(idx % 2))
        os.chdir(t)
        kw = dict(extend_include=["*.txt"] if st["extinc"] else [], exclude=["drafts/"] if st["excl"] else None,
                  extend_exclude={"none": [], "base": ["deep/"], "path": ["sub/deep/"]}[st["extexcl"]], force_exclude=st["force"],
                  files_max_size=LIMIT if st["limit"] else 0)

        def resolve(a):
            return FileResolver(FileResolverConfig(**kw)).resolve([x.replace("ABS", t) for x in a])
        res = resolve(list(args))
        rev = resolve(list(reversed(args)))
        perm_same = [str(p) for p in res] == [str(p) for p in rev]
        if shuffle:
            import os as _os
            real_walk = _os.walk

            def walk_rev(top, *a, **k):
                for dp, dn, fn in real_walk(top, *a, **k):
                    dn2, fn2 = list(reversed(dn)), list(reversed(fn))
                    yield dp, dn2, fn2
                    dn[:] = dn2
            _os.walk = walk_rev
            try:
                perm_same = perm_same and [str(p) for p in resolve(list(args))] == [str(p) for p in res]
            finally:
                _os.walk = real_walk
        paths = [str(p) for p in res]
        cli_same = True
        if with_cli:
            from harness.props.c16 import run_cli
            argv = ["--list-files"] + (["--extend-include", "*.txt"] if st["extinc"] else []) + (["--exclude", "drafts/"] if st["excl"] else []) \
                + {"none": [], "base": ["--extend-exclude", "deep/"], "path": ["--extend-exclude", "sub/deep/"]}[st["extexcl"]] + (["--force-exclude"] if st["force"] else []) \
                + ["--files-max-size", str(LIMIT if st["limit"] else 0)] + [x.replace("ABS", t) for x in args]
            rc, out, err = run_cli(argv)
            cli_same = rc == 0 and [x for x in out.split("\n") if x] == paths
        return dict(idx=idx, result=sorted({ident(p, t, root) for p in paths}), sorted_ok=paths == sorted(paths),
                    abs_ok=all(os.path.isabs(p) and p == os.path.normpath(p) for p in paths), nodup_ok=len({os.path.realpath(p) for p in paths}) == len(paths),
                    perm_same=perm_same, cli_same=cli_same, paths=[os.path.relpath(p, t) for p in paths], exc=None)
    except BaseException as e:  # noqa: BLE001
        return dict(idx=idx, result=[], sorted_ok=False, abs_ok=False, nodup_ok=False, perm_same=False, cli_same=False, paths=[], exc=repr(e))
    finally:
        os.chdir(cwd0)
        shutil.rmtree(root, ignore_errors=True)


def run(tier: str) -> int:
    chk = Check("C17", tier, "model_checking")
    maxargs = 2 if tier == "quick" else 3
    chk.rule = (f"cases = every point of spec/Resolve.tla: 96 settings x every argument list of length <= {maxargs} over 14 arguments "
                "(directories, files in different spellings, globs, a symlinked directory) on a 15-entry tree; quick executes every "
                "second point (seeded offset), thorough all; non-trivial = point whose Must set is non-empty and differs from the unfiltered tree")
    chk.assumptions = ["the universe is one rich tree (sizes at and over the limit, excluded dirs, ignore file, four kinds of symlink)",
                       "symlinks matched by a glob pattern are left free by the property (May)"]
    consts = dict(MaxArgs=maxargs, DoDump=True, **IMPL)
    res = tlc.run_tlc("Resolve", tlc.cfg_text(constants=consts, invariants=["Complete", "SoundK", "OrderFree", "Dump"]), coverage=True, timeout=3000)
    chk.add_tlc(res)
    for act in ("ArgFile", "ArgDir", "ArgGlob", "Sort"):
        if res.coverage.get(act, (0, 0))[0] == 0:
            raise tlc.TlcError(f"vacuous model: {act} never taken")
    # the declarative reading must reject the unfiltered-glob / follow-links implementation when the findings are not excused
    points = sorted((r for r in res.reports if r and r[0] == "P"), key=json.dumps)
    chk.notes["model_points"] = len(points)
    if tier == "quick":
        points = [p for k, p in enumerate(points) if (k + chk.seed) % 2 == 0]
    jobs = [(i, p[1], p[2], i % 25 == 0, i % 3 == 0) for i, p in enumerate(points)]
    obs = pmap(_observe, jobs, chunksize=40)
    traces, metas = [], {}
    for tid, (p, o) in enumerate(zip(points, obs), 1):
        chk.evaluations += 1
        _, st, args, mres, must, may = p
        if o["exc"]:
            chk.violation("NoException", dict(settings=st, args=args, exc=o["exc"]))
            continue
        traces.append(dict(id=tid, st=st, args=args, result=o["result"], sorted_ok=o["sorted_ok"], abs_ok=o["abs_ok"], nodup_ok=o["nodup_ok"],
                           perm_same=o["perm_same"], cli_same=o["cli_same"]))
        metas[tid] = dict(settings=st, args=args, listed=o["paths"], must=[FILES.get(i, i) for i in must], may=may)
        if must and len(must) < 10:
            chk.nontriv((json.dumps(st, sort_keys=True), tuple(args)))
    reports, gen, dist = tlc.validate_traces("ResolveTrace", traces, cfg=tlc.cfg_text(spec="TraceSpec", constants=dict(consts, DoDump=False),
                                                                                      invariants=["Report"]), timeout=3000)
    chk.states += dist
    chk.transitions += gen
    chk.traces = len(traces)
    name = lambda i: FILES.get(i, {99: "<outside>/o.md", 98: "nonexist.md (dangling)", 97: "<other>"}.get(i, str(i)))  # noqa: E731
    for t in traces:
        _, id_, same, missing, extra, e18a, e18b, e18c, shape_ok, perm_same, cli_same = reports[t["id"]]
        m = metas[id_]
        if missing:
            chk.violation("Complete", dict(m, missing=[name(i) for i in missing]))
        rest = set(extra)
        for fid, s in (("D18a", e18a), ("D18b", e18b), ("D18c", e18c)):
            if s and fid in chk.open_findings:
                chk.known_finding(fid, dict(m, extra=[name(i) for i in s]))
                rest -= set(s)
        if rest:
            chk.violation("Sound", dict(m, extra=[name(i) for i in sorted(rest)]))
        if not shape_ok:
            chk.violation("AbsoluteSortedDuplicateFree", m)
        if not perm_same:
            chk.violation("OrderIndependent", m)
        if not cli_same:
            chk.violation("CliListingEqualsResolver", m)
        if not same and not missing and not rest:
            chk.drift_note(m)
    for id_ in list(metas)[:: max(1, len(metas) // 5)][:5]:
        chk.sample(metas[id_])
    chk.exhaustive = tier == "thorough"
    chk.explanation = f"Resolve.tla explored completely for MaxArgs={maxargs}; thorough executes all points, quick every second one"
    return chk.finish()


def replay(path: str) -> int:
    v = json.loads(open(path).read())
    print(json.dumps(v, indent=1))
    c = v["case"]
    print(_observe((0, c["settings"], c["args"], True, True)))
    return 0
