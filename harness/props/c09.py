"""C09 — ellipsis conversion touches only three-dot runs in prose.

Leg A: TLC checks the machine Ellipses of spec/Typography.tla (ELLIPSIS_PATTERN with prefix / punctuation / spacing rules and
       the boundary test) against EllipsisProp (undoing the rewrite -- ellipsis -> three dots, spaces touching a dot run
       erased -- gives the same text for input and output), OnlyThreeDotRuns and idempotence, for every string up to the
       bound; every (input, output) pair is dumped.
Leg B: every string is concretised and run through the real ellipses(); documents with dots in prose, code, tags, HTML,
       URLs are formatted with the option off and on under the other option settings.
Leg C: spec/TypoTrace.tla validates each real string pair against the machine and the property, and each document pair:
       the normalised trees (real marko parse of both outputs) are identical once text nodes are passed through the inverse
       mapping -- same structure, same literal spans, same prose."""
from __future__ import annotations

import json
import re

from harness import corpus, project, tlc, typo
from harness.core import Check
from harness.par import pmap

FULL = {"a", "sp", "nl", "dot", "q", "pu", "ot"}
SMALL = {"a", "sp", "dot", "pu"}

DOT_DOCS = [
    ("prose", "Wait... what? Well...okay then. And so on ... and on. \"Quoted...\" text and (parenthetical...) too....\n"),
    ("code", "Dots in `code...span` and:\n\n```\ncode ... block...\n```\n\n    indented... code\n\nafter...\n"),
    ("tags", "{% if x... %}text...{% endif %} and {{ a...b }} and {# c... #} and <!-- d... --> end...\n"),
    ("links", "See [link...](http://example.com/a...b \"title...\") and <http://auto.link/...> and http://bare.url/x...y now...\n"),
    ("html", "A <span title=\"x...\">text...</span> here...\n"),
    ("heading_table", "# Heading...\n\n| a... | b |\n|---|---|\n| `c...` | d ... e |\n\n> quote... text\n\n- item...\n"),
    ("multiline", "First line...\nsecond line ... third\n...fourth line starts with dots. End...\n"),
    ("emphasis", "Some **bold...** and *...italic* and ~~strike...~~ here.. and . . . spaced.\n"),
    ("numbers", "Version 1...2 and 3... 4 and a...\n\n1. item...\n2. next ...\n"),
    ("multiline_tags", "A {# todo: fix this...\nlater #} b... and {% tag a=\"x...\"\n   b=1 %} text... then {{ v...\n|f }} end.\n\n- item {# in...\n  list #} more...\n"),
    # dots that are not an ellipsis where they stand (after a comma / a full stop) but may be wrapped to the start of a line
    ("wrap_to_line_start", "aaaa bbbb cccc dddd, ...eeee ffff gggg hhhh. ...iiii jjjj kkkk llll mmmm; ...nnnn oooo pppp qqqq rrrr ssss.\n\n- item text goes on, ...and on and on and on, ...and ends.\n"),
    ("tag_after_break", "line one...\n{% t x=\"...\" %} line two...\nline three {# c... #}\n"),
]


def inv_text(t: str) -> str:
    t = t.replace("…", "...")
    t = re.sub(r" *(\.{3,}) *", r"\1", t)
    return re.sub(r"\s+", " ", t).strip()


TAG_RE = re.compile(r"\{%.*?%\}|\{#.*?#\}|\{\{.*?\}\}|<!--.*?-->", re.S)


def inv_flat(tree, text="") -> list[str]:
    """normalised node strings (text nodes through the inverse mapping) + the template tags / comments of the raw text, verbatim
    up to whitespace runs: tags must be identical, not merely equal after the inverse mapping"""
    return [("t:" + inv_text(s[2:])) if s.startswith("t:") else s for s in project.flat(tree)] + \
        ["tag:" + re.sub(r"\s+", " ", m.group(0)) for m in TAG_RE.finditer(text)]


def _real(job):
    from flowmark.typography.ellipses import ellipses
    idx, syms = job
    text = typo.e_conc(syms, idx)
    try:
        res = ellipses(text)
        res2 = ellipses(res)
    except BaseException as e:  # noqa: BLE001
        return dict(exc=repr(e), text=text)
    return dict(text=text, res=res, t=typo.e_back(res), t2=typo.e_back(res2), s_back=typo.e_back(text))


def _doc_pair(job):
    from flowmark import reformat_text
    from flowmark.formats.flowmark_markdown import ListSpacing
    name, x, opts = job
    o = dict(opts)
    if isinstance(o.get("list_spacing"), str):
        o["list_spacing"] = ListSpacing(o["list_spacing"])
    try:
        off = reformat_text(x, **dict(o, ellipses=False))
        on = reformat_text(x, **dict(o, ellipses=True))
        on2 = reformat_text(on, **dict(o, ellipses=True))
    except BaseException as e:  # noqa: BLE001
        return dict(exc=repr(e))
    return dict(off=off, on=on, a=inv_flat(project.parse_marko(off), off), b=inv_flat(project.parse_marko(on), on), again_same=(on2 == on))


def run(tier: str) -> int:
    chk = Check("C09", tier, "model_checking")
    bounds = [(FULL, 5), (SMALL, 7)] if tier == "quick" else [(FULL, 6), (SMALL, 9)]
    chk.rule = (f"string family: every string over the 7-symbol alphabet up to length {bounds[0][1]} and over {{word, space, dot, punct}} up to "
                f"{bounds[1][1]}; document family: {len(DOT_DOCS)} dot-bearing documents + corpus x other option settings; non-trivial = string with "
                "a three-dot run / document pair whose outputs differ")
    chk.assumptions = ["document trees are read by the real marko (flowmark's dialect) from both outputs", "symbol classes use rotating characters"]
    pairs = {}
    for alpha, n in bounds:
        res = tlc.run_tlc("Typography", tlc.cfg_text(constants=dict(Alphabet=alpha, MaxLen=n, Machine="ellipses", DoDump=True),
                                                     invariants=["EllipsesOK", "EllipsesIdem", "Dump"]), timeout=3000)
        chk.add_tlc(res)
        for r in res.reports:
            if r and r[0] == "Y":
                pairs[tuple(r[1])] = r[2]
    items = sorted(pairs.items())
    chk.notes["model_strings"] = len(items)
    reals = pmap(_real, [(i, list(s)) for i, (s, _) in enumerate(items)], chunksize=2000)
    traces, metas = [], {}
    tid = 0
    for (s, mout), r in zip(items, reals):
        chk.evaluations += 1
        if "exc" in r:
            chk.violation("NoException", r)
            continue
        tid += 1
        traces.append(dict(id=tid, kind="str", s=list(s), t=r["t"], t2=r["t2"]))
        metas[tid] = dict(kind="str", input=r["text"], output=r["res"], symbols=list(s), model_output=mout)
        if "dot" in s and any(s[i:i + 3] == ("dot",) * 3 for i in range(len(s))):
            chk.nontriv(s)
    cube = []
    for w in ((40, 0) if tier == "quick" else (88, 40, 20, 0)):
        for sem in (False, True):
            for cl, sq, ls in ((False, False, "preserve"), (True, True, "loose")) if tier == "quick" else \
                    [(c, q, l) for c in (False, True) for q in (False, True) for l in ("preserve", "loose", "tight")]:
                cube.append(dict(width=w, semantic=sem, cleanups=cl, smartquotes=sq, list_spacing=ls))
    djobs = [(name, x, o) for name, x in DOT_DOCS + corpus.RICH + typo.QUOTE_DOCS for o in cube]
    for job, r in zip(djobs, pmap(_doc_pair, djobs, chunksize=20)):
        chk.evaluations += 1
        if "exc" in r:
            chk.violation("NoException", dict(doc=job[0], opts=job[2], exc=r["exc"]))
            continue
        tid += 1
        traces.append(dict(id=tid, kind="tree", a=r["a"], b=r["b"]))
        metas[tid] = dict(kind="tree", doc=job[0], opts=job[2], off=r["off"], on=r["on"], again_same=r["again_same"])
        if r["off"] != r["on"]:
            chk.nontriv(("doc", job[0], json.dumps(job[2], sort_keys=True)))
        # "applying it again changes nothing" is judged without smart quotes in the option set (their own
        # non-idempotence is C02's finding D37 and must not be charged to the ellipsis option)
        if not r["again_same"] and not job[2].get("smartquotes"):
            chk.violation("ApplyingAgainChangesNothing", dict(doc=job[0], opts=job[2], on=r["on"]))
    reports, gen, dist = tlc.validate_traces("TypoTrace", traces, cfg=tlc.cfg_text(spec="TraceSpec", constants=dict(Alphabet=FULL, MaxLen=0,
                                             Machine="ellipses", DoDump=False), invariants=["TraceReport"]), timeout=3000)
    chk.states += dist
    chk.transitions += gen
    chk.traces = len(traces)
    for t in traces:
        _, id_, acc, prop = reports[t["id"]]
        m = metas[id_]
        if not prop:
            if m["kind"] == "tree":
                a, b = t["a"], t["b"]
                j = next((i for i in range(min(len(a), len(b))) if a[i] != b[i]), min(len(a), len(b)))
                m = dict(m, first_diff=j, off_node=a[j: j + 2], on_node=b[j: j + 2])
            chk.violation("EllipsisProp" if m["kind"] == "str" else "OnlyEllipsesDiffer", m)
        elif not acc:
            chk.drift_note(m)
    for id_ in list(metas)[:: max(1, len(metas) // 5)][:5]:
        chk.sample(metas[id_])
    chk.exhaustive = True
    chk.explanation = "string families exhaustive up to the bounds; document family is a fixed set x option settings"
    return chk.finish()


def replay(path: str) -> int:
    v = json.loads(open(path).read())
    print(json.dumps(v, indent=1))
    return 0
