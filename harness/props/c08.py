"""C08 — smart quotes only swap individual quote characters, and only in prose.

Leg A: TLC checks the machine SmartQuotes of spec/Typography.tla (tag segmentation, leftmost non-overlapping QUOTE_PATTERN
       matches with the consumed suffix, paragraph-break veto, per-word apostrophe rule) against QuoteProp /\\ TagsUntouched
       for every string over the symbol alphabet up to the bound, and dumps every (input, output) pair.
Leg B: every string is concretised (rotating concrete characters per class) and run through the real smart_quotes; the result
       is mapped back to symbols and compared with the machine's output.
Leg C: spec/TypoTrace.tla validates each real pair against the machine (drift) and the property (verdict); and, at document
       level, (smartquotes off, smartquotes on) pairs of reformat_text outputs for quote-bearing documents under every other
       option setting: same length, same line breaks, every differing position turns ' or " into a curly quote of its family
       outside code, tags, HTML, URLs, destinations and escaped quotes."""
from __future__ import annotations

import json

from harness import corpus, tlc, typo
from harness.core import Check
from harness.par import pmap

FULL = {"q2", "q1", "a", "s", "sp", "nl", "pt", "em", "ot", "to", "tc"}
SMALL = {"q2", "q1", "a", "s", "sp", "pt"}
PARA = {"q2", "q1", "a", "sp", "nl"}


def _real(job):
    from flowmark.typography.smartquotes import smart_quotes
    idx, syms = job
    text, _ = typo.q_conc(syms, idx)
    try:
        res = smart_quotes(text)
    except BaseException as e:  # noqa: BLE001
        return dict(exc=repr(e), text=text)
    return dict(text=text, res=res, t=typo.q_back(res, syms, idx))


def _doc_pair(job):
    from flowmark import reformat_text
    from flowmark.formats.flowmark_markdown import ListSpacing
    name, x, opts = job
    o = dict(opts)
    if isinstance(o.get("list_spacing"), str):
        o["list_spacing"] = ListSpacing(o["list_spacing"])
    try:
        off = reformat_text(x, **dict(o, smartquotes=False))
        on = reformat_text(x, **dict(o, smartquotes=True))
    except BaseException as e:  # noqa: BLE001
        return dict(exc=repr(e))
    return dict(off=off, on=on, tr=typo.diff_trace(off, on))


def run(tier: str) -> int:
    chk = Check("C08", tier, "model_checking")
    bounds = [(FULL, 4), (SMALL, 6), (PARA, 7)] if tier == "quick" else [(FULL, 5), (SMALL, 7), (PARA, 8)]     # 6^8 exceeds TLC's limit of 10^6 elements for an enumerated set
    chk.rule = ("string family: every string over the 11-symbol alphabet up to length " + str(bounds[0][1]) + ", over the 6-symbol quote/word alphabet up "
                "to " + str(bounds[1][1]) + " and over the paragraph alphabet up to " + str(bounds[2][1]) + "; document family: " + str(len(typo.QUOTE_DOCS)) +
                " quote-bearing documents (+ corpus) x other option settings; non-trivial = string whose real result differs from the input, or "
                "document pair with at least one converted quote")
    chk.assumptions = ["protected spans of the off-output are found by harness/typo.py regexes (code spans/blocks, tags, comments, HTML tags, "
                       "autolinks, destinations, bare URLs, reference definitions, escaped quotes) on generated documents",
                       "symbol classes are represented by rotating concrete characters (e.g. pt = . , ! ) ? ; :)"]
    pairs = {}
    for alpha, n in bounds:
        res = tlc.run_tlc("Typography", tlc.cfg_text(constants=dict(Alphabet=alpha, MaxLen=n, Machine="quotes", DoDump=True),
                                                     invariants=["QuotesOK", "Dump"]), timeout=3000)
        chk.add_tlc(res)
        for r in res.reports:
            if r and r[0] == "Y":
                pairs[tuple(r[1])] = r[2]
    items = sorted(pairs.items())
    chk.notes["model_strings"] = len(items)
    reals = pmap(_real, [(i, list(s)) for i, (s, _) in enumerate(items)], chunksize=2000)
    traces, metas = [], {}
    tid = 0
    for (s, mout), r in zip(items, reals):
        chk.evaluations += 1
        if "exc" in r:
            chk.violation("NoException", r)
            continue
        tid += 1
        t = r["t"] if r["t"] is not None else ["??"]
        traces.append(dict(id=tid, kind="str", s=list(s), t=t))
        metas[tid] = dict(kind="str", input=r["text"], output=r["res"], symbols=list(s), model_output=mout)
        if r["res"] != r["text"]:
            chk.nontriv(s)
    # ---- documents ----
    cube = []
    for w in ((40, 0) if tier == "quick" else (88, 40, 20, 0)):
        for sem in (False, True):
            for cl, el, ls in ((False, False, "preserve"), (True, True, "loose")) if tier == "quick" else \
                    [(c, e, l) for c in (False, True) for e in (False, True) for l in ("preserve", "loose", "tight")]:
                cube.append(dict(width=w, semantic=sem, cleanups=cl, ellipses=el, list_spacing=ls))
    djobs = [(name, x, o) for name, x in typo.QUOTE_DOCS + corpus.RICH for o in cube]
    for job, r in zip(djobs, pmap(_doc_pair, djobs, chunksize=20)):
        chk.evaluations += 1
        if "exc" in r:
            chk.violation("NoException", dict(doc=job[0], opts=job[2], exc=r["exc"]))
            continue
        tid += 1
        tr = r["tr"]
        traces.append(dict(id=tid, kind="doc", len_off=tr["len_off"], len_on=tr["len_on"], nl_same=tr["nl_same"], trunc=tr["trunc"],
                           diffs=[dict(c=d["c"], d=d["d"], prot=d["prot"], seg=d["seg"]) for d in tr["diffs"]]))
        metas[tid] = dict(kind="doc", doc=job[0], opts=job[2], off=r["off"], on=r["on"],
                          diffs=[(d["pos"], r["off"][max(0, d["pos"] - 8): d["pos"] + 8], d["c"], d["d"], d["prot"]) for d in tr["diffs"][:12]])
        if tr["diffs"]:
            chk.nontriv(("doc", job[0], json.dumps(job[2], sort_keys=True)))
    reports, gen, dist = tlc.validate_traces("TypoTrace", traces, cfg=tlc.cfg_text(spec="TraceSpec", constants=dict(Alphabet=FULL, MaxLen=0,
                                             Machine="quotes", DoDump=False), invariants=["TraceReport"]), timeout=3000)
    chk.states += dist
    chk.transitions += gen
    chk.traces = len(traces)
    for t in traces:
        _, id_, acc, prop = reports[t["id"]]
        m = metas[id_]
        if not prop:
            chk.violation("QuoteProp" if m["kind"] == "str" else "DocQuoteProp", m)
        elif not acc:
            chk.drift_note(m)
    for id_ in list(metas)[:: max(1, len(metas) // 5)][:5]:
        m = metas[id_]
        chk.sample({k: m[k] for k in m if k not in ("off", "on")} if m["kind"] == "doc" else m)
    chk.exhaustive = True
    chk.explanation = "string families exhaustive up to the bounds; document family is a fixed set x option settings"
    return chk.finish()


def replay(path: str) -> int:
    v = json.loads(open(path).read())
    print(json.dumps(v, indent=1))
    return 0
