"""C03 — output is a canonical form independent of the input's line layout.

Leg A: TLC explores spec/Layout.tla: every paragraph (word kinds plain / sentence end / atomic / block-looking / tag) x every
       layout reachable by re-laying one gap at a time (1 space, 2+ spaces, newline, newline + extra indent, lazy newline) x
       container; Admissible names the re-layouts the property quantifies over; CanonStable and OneSegment hold.
       Every admissible layout is dumped.
Leg B: each admissible layout is concretised inside its container and formatted by the real reformat_text under several
       option sets; all layouts of one paragraph must give the bytes of the canonical (single-space) layout; and for the
       canonical layout every history (o1 then o2) must give the bytes of o2 alone.
Leg C: spec/LayoutTrace.tla re-evaluates admissibility on every observation and reports the equality; a violation is an
       admissible pair with different bytes."""
from __future__ import annotations

import json

from harness import tlc
from harness.core import Check
from harness.par import pmap

CONC = {"p": ["alpha", "beta", "gamma", "|", "epsilon"], "s": ["done.", "ends.", "stop.", "here.", "fine."], "a": ["`c d`", "[l m](u)", "`e f`", "[x y](z)", "`g h`"],
        "h": ["-", "1.", "#", ">", "+"], "e": ["1\\.", "2\\)", "10\\.", "3\\.", "7\\)"], "t": ["{% t %}", "<!-- c -->", "{{ v }}", "{# n #}", "{% /t %}"]}
CONTS = {"top": ("", ""), "bullet": ("- ", "  "), "quote": ("> ", "> ")}
OPTS = [dict(width=88, semantic=False), dict(width=20, semantic=False), dict(width=20, semantic=True), dict(width=0, semantic=False), dict(width=12, semantic=True)]


def conc(words, seps, cont, inner=False, v=0):
    """v shifts the representative chosen for every word (the rotation alone ties the spelling to the position)"""
    first, cp = CONTS[cont]
    if inner:
        return conc(words, seps, cont, v=v).replace("`c d`", "`c  d`").replace("[l m]", "[l   m]").replace("`e f`", "`e \t f`").replace("[x y]", "[x\ty]").replace("`g h`", "`g   h`")     # a tab is a space like any other
    out = [first, CONC[words[0]][0 if v == 0 else (v + 1) % 3]]        # never "|" / "epsilon" first: a paragraph must start with a plain token
    for g, s in enumerate(seps):
        sep = {"s1": " ", "s2": ("  ", "   ", " " * 12)[(g + v) % 3], "nl": "\n" + cp, "nli": "\n" + cp + "   ", "nll": "\n"}[s]
        out.append(sep)
        out.append(CONC[words[g + 1]][(g + 1 + v) % 5])
    text = "".join(out) + "\n"
    if v == 1:
        # a no-break space inside the atomic constructs: whatever the formatter makes of it, it makes the same of it in every layout
        text = text.replace("`c d`", "`c\u00a0d`").replace("[l m]", "[l\u00a0m]").replace("`e f`", "`e\u00a0f`").replace("[x y]", "[x\u00a0y]").replace("`g h`", "`g\u00a0h`")
    return text


def _fmt(job):
    from flowmark import reformat_text
    x, o = job
    try:
        return reformat_text(x, cleanups=False, **o)
    except BaseException as e:  # noqa: BLE001
        return "EXC:" + repr(e)


def _hist(job):
    from flowmark import reformat_text
    x, o1, o2 = job
    try:
        return reformat_text(reformat_text(x, cleanups=False, **o1), cleanups=False, **o2) == reformat_text(x, cleanups=False, **o2)
    except BaseException as e:  # noqa: BLE001
        return "EXC:" + repr(e)


def run(tier: str) -> int:
    chk = Check("C03", tier, "model_checking")
    n = 4        # 5 words give 5.8 M layouts; thorough instead replays every admissible layout of <= 4 words (quick: a quarter)
    chk.rule = (f"cases = every admissible layout of spec/Layout.tla: paragraphs of 2..{n} words over 6 word kinds x 5 separators per gap x 3 "
                f"containers, x {len(OPTS)} option sets (quick: a seeded seventh of the layouts per paragraph); histories: canonical layout x every "
                "ordered pair of option sets; non-trivial = layout with at least one non-single-space gap / history with o1 != o2")
    chk.assumptions = ["word kinds are represented by fixed tokens; 'block-looking' words are never placed at a line start by an admissible layout"]
    consts = dict(MaxWords=n, WordKinds={"p", "s", "a", "h", "t", "e"}, Seps={"s1", "s2", "nl", "nli", "nll"}, Containers=set(CONTS))
    res = tlc.run_tlc("Layout", tlc.cfg_text(constants=dict(consts, DoDump=True), invariants=["CanonStable", "OneSegment", "Dump"], view="view"),
                      coverage=True, timeout=3000)
    chk.add_tlc(res)
    lay = sorted(((tuple(r[1]), tuple(r[2]) + (("inner",) if r[5] else ()), r[3]) for r in res.reports if r and r[0] == "L" and r[4]))
    chk.notes["admissible_layouts"] = len(lay)
    groups = {}
    for w, s, c in lay:
        groups.setdefault((w, c), []).append(s)
    jobs, keys = [], []
    for gi, ((w, c), ss) in enumerate(groups.items()):
        canon = tuple("s1" for _ in range(len(w) - 1))
        if tier == "quick":
            ss = [s for k, s in enumerate(ss) if (k + chk.seed + len(w)) % 7 == 0 or s == canon]
        # two spellings of every word kind per paragraph (thorough: both; quick: alternating)
        for v in ((0, 1) if tier == "thorough" else ((gi + chk.seed) % 2,)):
            for oi, o in enumerate(OPTS):
                for s in ss:
                    jobs.append((conc(w, s[:len(w) - 1], c, inner=len(s) == len(w), v=v), o))
                    keys.append((w, c, s, oi, v))
    outs = pmap(_fmt, jobs, chunksize=500)
    by = {k: o for k, o in zip(keys, outs)}
    traces, metas = [], {}
    tid = 0
    for (w, c, s, oi, v), out in zip(keys, outs):
        chk.evaluations += 1
        canon = tuple("s1" for _ in range(len(w) - 1))
        if out.startswith("EXC:"):
            chk.violation("NoException", dict(src=conc(w, s[:len(w) - 1], c, v=v), opts=OPTS[oi], exc=out))
            continue
        if s == canon:
            continue
        tid += 1
        ref = by[(w, c, canon, oi, v)]
        traces.append(dict(id=tid, words=list(w), sepsA=list(canon), sepsB=list(s[:len(w) - 1]), cont=c, same=(out == ref)))
        metas[tid] = dict(kind="layout", words=list(w), layout=list(s), container=c, opts=OPTS[oi], src=conc(w, s[:len(w) - 1], c, inner=len(s) == len(w), v=v),
                          canonical_src=conc(w, canon, c, v=v), out=out, canonical_out=ref)
        chk.nontriv((w, c, s, oi, v))
    hjobs, hkeys = [], []
    for (w, c) in groups:
        canon = tuple("s1" for _ in range(len(w) - 1))
        if tier == "quick" and (hash(w) + chk.seed) % 3:
            continue
        for i1, o1 in enumerate(OPTS):
            for i2, o2 in enumerate(OPTS):
                if i1 != i2:
                    hjobs.append((conc(w, canon, c), o1, o2))
                    hkeys.append((w, c, i1, i2))
    for (w, c, i1, i2), same in zip(hkeys, pmap(_hist, hjobs, chunksize=200)):
        chk.evaluations += 1
        canon = ["s1"] * (len(w) - 1)
        if same is not True and same is not False:
            chk.violation("NoException", dict(src=conc(w, canon, c), o1=OPTS[i1], o2=OPTS[i2], exc=same))
            continue
        tid += 1
        traces.append(dict(id=tid, words=list(w), sepsA=canon, sepsB=canon, cont=c, same=same))
        metas[tid] = dict(kind="history", words=list(w), container=c, o1=OPTS[i1], o2=OPTS[i2], src=conc(w, canon, c))
        chk.nontriv(("h", w, c, i1, i2))
    reports, gen, dist = tlc.validate_traces("LayoutTrace", traces, cfg=tlc.cfg_text(spec="TraceSpec", constants=dict(consts, DoDump=False),
                                                                                     invariants=["TraceReport"]), timeout=3000)
    chk.states += dist
    chk.transitions += gen
    chk.traces = len(traces)
    stats = {}
    for t in traces:
        _, id_, adm, same = reports[t["id"]]
        m = metas[id_]
        if not adm:
            chk.discarded += 1
            continue
        if same:
            continue
        fid = finding_for(m)
        stats[fid or "unattributed"] = stats.get(fid or "unattributed", 0) + 1
        if fid and fid in chk.open_findings:
            chk.known_finding(fid, {k: m[k] for k in m if k not in ("out", "canonical_out")})
        else:
            chk.violation("LayoutIndependent" if m["kind"] == "layout" else "HistoryIndependent", m)
    chk.notes["failures_by_finding"] = stats
    for id_ in list(metas)[:: max(1, len(metas) // 5)][:5]:
        chk.sample({k: metas[id_][k] for k in metas[id_] if k not in ("out", "canonical_out")})
    chk.exhaustive = tier == "thorough"
    chk.explanation = "Layout.tla explored completely; thorough replays every admissible layout, quick a quarter per paragraph"
    return chk.finish()


def finding_for(m) -> str | None:
    """History failures are excused only by counterfactual neutralisation: undo what the first pass introduced (marker
    escapes; line breaks, by re-joining the paragraph's lines) -- if the second pass then agrees with the direct one, the
    failure is entirely D41 / D12."""
    import re
    from flowmark import reformat_text
    if m["kind"] == "layout":
        # D33: tag paragraph + escaped numeral directly after a line break of the layout
        lay = m["layout"]
        # D33: the block-content heuristic of the tag-newline handling is switched on only by a tag that starts or ends a SOURCE line,
        # and then keeps the break before a source line that starts like an ordered item ('10. x', also written '10\\. x') or a table row
        first, cp = CONTS[m["container"]]
        body = [l[len(first):] if j == 0 else l[len(cp):] if l.startswith(cp) else l for j, l in enumerate(m["src"].rstrip("\n").split("\n"))]
        body = [b.strip() for b in body]
        tagre = r"(\{%.*?%\}|\{#.*?#\}|\{\{.*?\}\}|<!--.*?-->)"
        tag_at_edge = any(re.match(tagre, b) or re.search(tagre + "$", b) for b in body)
        blockish = any(re.match(r"(\d+\\?[.)]|\|)(\s|$)", b) for b in body[1:])
        if tag_at_edge and blockish:
            return "D33"
        return None
    if m["kind"] != "history":
        return None
    first, cp = CONTS[m["container"]]
    mid = reformat_text(m["src"], cleanups=False, **m["o1"])
    direct = reformat_text(m["src"], cleanups=False, **m["o2"])
    # D21 (C01): the first pass, in semantic mode, left a marker word unescaped at a line start and changed the structure
    from harness import project
    if m["o1"].get("semantic") and "h" in m["words"] and project.flat(project.parse_marko(mid)) != project.flat(project.parse_marko(m["src"])):
        return "D21"
    lines = [l for l in mid.split("\n") if l.strip()]
    bodies = [l[len(first):] if j == 0 and l.startswith(first) else l[len(cp):] if l.startswith(cp) else l for j, l in enumerate(lines)]
    tag = re.compile(r"(\{%.*?%\}|\{#.*?#\}|\{\{.*?\}\}|<!--.*?-->)")
    tag_break = any(tag.match(b) for b in bodies[1:]) or any(tag.search(b) and tag.search(b).end() == len(b) for b in bodies[:-1])
    # only the escapes of - + * > # are kept by later passes on the unchanged tree (D41); an escaped numeral (1\.) that no longer starts
    # a line is un-escaped again by render_literal, so it is never neutralised here
    unesc = [re.sub(r"^\\([-+*>#])", lambda x: x.group(1), b) for b in bodies]
    had_escape = unesc != bodies and not re.search(r"\\[-+*>#]", m["src"])
    rejoined = first + " ".join(unesc if had_escape else bodies) + "\n"
    if reformat_text(rejoined, cleanups=False, **m["o2"]) != direct:
        return None
    if had_escape and reformat_text(first + " ".join(bodies) + "\n", cleanups=False, **m["o2"]) != direct:
        return "D41"
    if tag_break and "t" in m["words"]:
        return "D12"
    if "t" in m["words"] and "e" in m["words"] and any(re.match(r"\d+\\?[.)](\s|$)", b) for b in bodies[1:]):
        return "D33"       # the first pass put the (escaped) numeral at a line start of a tag paragraph: block-content heuristic keeps that break
    return "D41" if had_escape else None


def replay(path: str) -> int:
    v = json.loads(open(path).read())
    print(json.dumps(v, indent=1))
    return 0
