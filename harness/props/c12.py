"""C12 — formatting always terminates with well-formed output.  (claimed at *exploration* level)

Spec: spec/Pipeline.tla is the staged call protocol of reformat_text / fill_markdown: it has no Raise and no Timeout action, its
      fairness property Terminates is checked by TLC, and it fixes which transformation stages run for which options.
Inputs: (i) grammar soup -- every string of <= 2 (quick) / <= 3 (thorough) symbols over a 46-symbol alphabet of delimiters, markers,
      control characters (NUL, CR, TAB, VT, LS), placeholder look-alikes and filler, plus seeded longer soups; (ii) the construct
      corpus; (iii) pumped families (delimiter runs, deep nesting up to depth 12, long paragraphs / lists / tables / link and tag
      runs) at sizes n, 2n, 4n.  Every call runs under a CPU-time watchdog with widths in {-5, 0, 1, 7, 88, 10^6} and rotating
      option combinations.
Observed per call: return / raise / timeout, the stage functions entered (sampled), and flags of the result: str, final newline
      (Markdown mode), no control or placeholder bytes that were not in the input, no trailing spaces on blank lines inside code.
      spec/PipeTrace.tla decides that each observation is a behaviour of the protocol with a well-formed result.
      The growth clause is a measurement (CPU time of the pumped families, doubling ratio above a floor); TLA+ says nothing
      about it -- it is the weakest clause of this check."""
from __future__ import annotations

import itertools
import json
import random
import re
import resource
import signal
import sys
import time

from harness import corpus, tlc
from harness.core import Check
from harness.par import pmap

ALPHA = ["`", "``", "```", "~~~", "[", "]", "(", ")", "{%", "%}", "{#", "#}", "{{", "}}", "<!--", "-->", "<", ">", "/", "*", "**", "_", "~", "\\", "#",
         "-", "+", "1.", "|", "!", "\"", "'", "...", "a", "Ab.", " ", "  ", "\n", "\r", "\t", "\x00", "\x00AC0\x00", "\x0b", " ", "---", "    ", "=", ":",
         "[^1]", "&amp;"]
WIDTHS = [-5, 0, 1, 7, 88, 10 ** 6]
CPU_LIMIT = 20.0
PLACEHOLDER = re.compile("\x00AC\\d+\x00")
STAGES = {("split_frontmatter", "frontmatter.py"), ("preprocess_tag_block_spacing", "tag_handling.py"), ("parse", "marko/__init__.py"),
          ("doc_cleanups", "doc_cleanups.py"), ("rewrite_text_across_inlines", "doc_transforms.py"), ("rewrite_text_content", "doc_transforms.py"),
          ("render", "marko/__init__.py"), ("fill_text", "text_filling.py")}


class _Timeout(BaseException):
    pass


def _alarm(signum, frame):
    raise _Timeout()


def opts_for(k: int) -> dict:
    w = WIDTHS[k % len(WIDTHS)]
    b = (k // len(WIDTHS)) % 32
    if (k // 7) % 9 == 0:
        return dict(width=w, plaintext=True)
    return dict(width=w, semantic=bool(b & 1), cleanups=bool(b & 2), smartquotes=bool(b & 4), ellipses=bool(b & 8),
                list_spacing=["preserve", "loose", "tight"][(k // 5) % 3])


def code_blank_clean(out: str) -> bool:
    fence = None
    for line in out.split("\n"):
        body = line.lstrip(" >")
        if fence is None:
            m = re.match(r"^(`{3,}|~{3,})", body)
            if m:
                fence = m.group(1)
        else:
            if body.startswith(fence[0] * len(fence)) and body.strip(fence[0]).strip() == "":
                fence = None
            elif line.strip(" >") == "" and line != line.rstrip(" "):
                return False
    return True


def call(job):
    from flowmark import reformat_text
    from flowmark.formats.flowmark_markdown import ListSpacing
    k, x, record = job
    o = opts_for(k)
    kw = dict(o)
    if "list_spacing" in kw:
        kw["list_spacing"] = ListSpacing(kw["list_spacing"])
    stages = []

    def prof(frame, event, arg):
        if event == "call":
            co = frame.f_code
            for name, fn in STAGES:
                if co.co_name == name and co.co_filename.endswith(fn):
                    stages.append(name)
    signal.signal(signal.SIGVTALRM, _alarm)
    signal.setitimer(signal.ITIMER_VIRTUAL, CPU_LIMIT)
    t0 = time.process_time()
    try:
        if record:
            sys.setprofile(prof)
        try:
            out = reformat_text(x, **kw)
        finally:
            sys.setprofile(None)
        outcome, err = "return", ""
    except _Timeout:
        out, outcome, err = None, "timeout", ""
    except BaseException as e:  # noqa: BLE001
        out, outcome, err = None, "raise", repr(e)[:300]
    finally:
        signal.setitimer(signal.ITIMER_VIRTUAL, 0)
    cpu = time.process_time() - t0
    flags = dict(is_str=isinstance(out, str), ends_nl=False, no_new_control=False, no_placeholder=False, code_blank_clean=False)
    if isinstance(out, str):
        flags["ends_nl"] = out.endswith("\n")
        ctrl_in = {c for c in x if (ord(c) < 32 and c not in "\n\t") or ord(c) == 127}
        # marko replaces NUL by U+FFFD (CommonMark): allowed when the input held a NUL
        allowed_extra = {"�"} if "\x00" in x else set()
        flags["no_new_control"] = all(c in ctrl_in for c in out if (ord(c) < 32 and c not in "\n\t") or ord(c) == 127) and \
            ("�" not in out or "�" in x or bool(allowed_extra))
        flags["no_placeholder"] = all(m.group(0) in x for m in PLACEHOLDER.finditer(out))
        # "no ADDED trailing spaces": inputs that themselves hold a whitespace-only non-empty line (possibly code content) are not judged
        has_ws_line = any(l != "" and l.strip(" \t>") == "" and l.endswith((" ", "\t")) for l in re.split(r"[\n\r\x0b\x0c\u2028]", x))
        flags["code_blank_clean"] = code_blank_clean(out) or o.get("plaintext", False) or has_ws_line
    fm = bool(re.match(r"^\s*---[ \t]*\n(?:.*\n)*?---[ \t]*(\n|$)", x)) if not o.get("plaintext") else False
    return dict(k=k, outcome=outcome, err=err, cpu=cpu, flags=flags, stages=stages if record else [], opts=o, fm_guess=fm, out_head=(out or "")[:200])


def soups(tier, rng):
    out = []
    for n in (1, 2) if tier == "quick" else (1, 2, 3):
        if n == 3:
            # thorough: every third triple (85k calls is affordable, but each triple also gets only one option point)
            for i, t in enumerate(itertools.product(ALPHA, repeat=3)):
                if i % 2 == 0:
                    out.append("".join(t))
        else:
            for t in itertools.product(ALPHA, repeat=n):
                out.append("".join(t))
    for _ in range(3000 if tier == "quick" else 30000):
        out.append("".join(rng.choice(ALPHA) for _ in range(rng.randint(3, 40))))
    return out


def pumped(n):
    """name -> text of size parameter n"""
    return {
        "backticks": "`" * n + " x", "brackets": "[" * n + "a" + "]" * n, "stars": "*" * n + "a" + "*" * n, "angles": "<" * n + "a", "tags_open": "{% " * n,
        "long_para": " ".join(f"word{i}." if i % 7 == 0 else f"word{i}" for i in range(n)), "list": "\n".join(f"- item {i} text" for i in range(n)),
        "table": "| a | b |\n|---|---|\n" + "\n".join(f"| {i} | x |" for i in range(n)), "links": " ".join(f"[l{i}](http://e.com/{i})" for i in range(n)),
        "tags": " ".join("{% t %}{% /t %}" for _ in range(n)), "quotes_chars": " ".join('"q" it\'s...' for _ in range(n)),
        "paras": "\n\n".join(f"Paragraph {i} with some words in it." for i in range(n)), "code_spans": " ".join("`c d`" for _ in range(n)),
        "underscores": "_" * n + "a" + "_" * n, "escapes": "\\*" * n, "html": "<b>" * n + "x" + "</b>" * n,
    }


def pumped_large(n):
    """inputs of some tens of kilobytes for the clause "time stays modest": the pumped families (without the two that hit finding D42) plus long runs
    of spaces and tabs that reach the output verbatim (code, trailing whitespace)"""
    d = {k: v for k, v in pumped(n).items() if k not in ("stars", "underscores")}
    d["code_spaces"] = "```\n" + " " * (40 * n) + "x\n" + "\t" * (10 * n) + "y\n\n```\n\nafter\n"
    d["indented_code_spaces"] = "para\n\n    " + " " * (40 * n) + "x\n\nafter\n"
    d["trailing_spaces"] = "\n".join("line" + " " * (n // 10) for _ in range(40)) + "\n"
    # an opener that is never closed, followed by many quoted words / brackets: the atomic patterns must give up in linear time
    d["unclosed_angle_quotes"] = "x <y " + " ".join(f'"w{i}"' for i in range(n)) + " end\n"
    d["unclosed_bracket_parens"] = "x [y " + " ".join(f"(w{i})" for i in range(n)) + " end\n"
    d["unclosed_tag_quotes"] = "x {% t " + " ".join(f'a{i}="v"' for i in range(n)) + " end\n"
    d["table_wide_cells"] = "| a | b |\n|---|---|\n| " + "x" * (10 * n) + " | `" + "y" * (10 * n) + "` |\n"
    return d


MODEST_CPU_S = 4.0      # the slowest family of the unchanged tree needs about 0.5 s at this size


def code_blank_docs():
    """code blocks holding runs of 1..4 empty lines, in every container: no blank code line may come out with trailing spaces"""
    out = []
    conts = [("", ""), ("- ", "  "), ("> ", "> "), ("1. ", "   "), ("- > ", "  > "), ("> - ", ">   "), ("[^1]: ", "    "), ("- a\n  - ", "    "), ("10. ", "    ")]
    for first, cont in conts:
        for fence in ("```", "~~~~"):
            for run in (1, 2, 3, 4):
                lines = [fence + "py", "a"] + [""] * run + ["b"] + ([""] * (run - 1) + ["c"] if run > 1 else []) + [fence]
                body = "\n".join((first if j == 0 else cont.rstrip() if l == "" else cont) + l for j, l in enumerate(lines))
                out.append(("x[^1]\n\n" if first.startswith("[^") else "") + body + "\n")
        for run in (1, 2, 3):      # indented code
            lines = ["para", "", "    a"] + [""] * run + ["    b"]
            out.append("\n".join((first if j == 0 else cont.rstrip() if l == "" else cont) + l for j, l in enumerate(lines)) + "\n")
    return out


def nested(depth):
    return {"quote_nest": "> " * depth + "deep", "list_nest": "\n".join("  " * i + "- l" + str(i) for i in range(depth)),
            "mixed_nest": "".join(("> " if i % 2 else "- ") for i in range(depth)) + "x"}


def _timed(job):
    name, text, k = job
    best = None
    for _ in range(3):
        r = call((k, text, False))
        if r["outcome"] != "return":
            return name, None, r
        best = r["cpu"] if best is None else min(best, r["cpu"])
    return name, best, r


def run(tier: str) -> int:
    chk = Check("C12", tier, "exploration")
    chk.rule = ("inputs = every string of <= 2 (quick) / <= 3 (thorough, every second) symbols over a 50-symbol delimiter/control alphabet, seeded soups of "
                "3..40 symbols, the construct corpus x 24 option points, nesting up to depth 12, pumped families at n/2n/4n; each input is paired with an "
                "option point rotating through 6 widths x 32 switch combinations x 3 list spacings + plaintext; non-trivial = distinct (input, options) "
                "whose input holds at least one non-filler symbol")
    chk.assumptions = ["CPU-time watchdog of 20 s per call (ITIMER_VIRTUAL)", "growth is measured as CPU time (best of 3) with a doubling-ratio test above a floor; "
                       "this clause is a measurement, not decided by the specification", "U+FFFD in place of NUL is CommonMark's prescribed replacement, not a new control byte"]
    res = tlc.run_tlc("Pipeline", tlc.cfg_text(constants=dict(DoDump=True), invariants=["Ordered", "Dump"], properties=["Terminates"], deadlock=False), coverage=True)
    chk.add_tlc(res)
    model = {json.dumps(r[1], sort_keys=True): r[2] for r in res.reports if r and r[0] == "S"}
    chk.notes["model_option_points"] = len(model)
    rng = random.Random(chk.seed)
    texts = soups(tier, rng)
    texts += [t for _, t in corpus.RICH] * 24
    for d in (1, 4, 8, 12):
        texts += list(nested(d).values())
    texts += code_blank_docs() * 3          # x 3: each copy meets another option point
    jobs = [(i + chk.seed, x, i % 9 == 0) for i, x in enumerate(texts)]
    results = pmap(call, jobs, chunksize=200)
    traces, metas = [], {}
    for tid, ((k, x, rec), r) in enumerate(zip(jobs, results), 1):
        chk.evaluations += 1
        o = r["opts"]
        unclosed = False
        if not o.get("plaintext"):
            from flowmark.formats.frontmatter import split_frontmatter
            fmv, content = split_frontmatter(x)
            unclosed = bool(fmv) and fmv == x and content == "" and sum(1 for l in x.replace("\r\n", "\n").split("\n") if l.strip() == "---") < 2
        po = dict(plaintext=bool(o.get("plaintext")), cleanups=bool(o.get("cleanups")), smartquotes=bool(o.get("smartquotes")),
                  ellipses=bool(o.get("ellipses")), fm=False, unclosed=unclosed)
        traces.append(dict(id=tid, o=po, stages=r["stages"], outcome=r["outcome"], flags=r["flags"]))
        metas[tid] = dict(input=x[:400], opts=o, outcome=r["outcome"], error=r["err"], cpu_s=round(r["cpu"], 3), flags=r["flags"], stages=r["stages"], output_head=r["out_head"])
        if any(s in x for s in ALPHA[:33] + ALPHA[37:]):
            chk.nontriv((x, json.dumps(o, sort_keys=True)))
    reports, gen, dist = tlc.validate_traces("PipeTrace", traces, cfg=tlc.cfg_text(spec="TraceSpec", constants=dict(DoDump=False), invariants=["TraceReport"]), timeout=3000)
    chk.states += dist
    chk.transitions += gen
    chk.traces = len(traces)
    for t in traces:
        _, id_, returned, stages_ok, wf = reports[t["id"]]
        m = metas[id_]
        if not returned:
            chk.violation("ReturnsWithoutRaising" if m["outcome"] == "raise" else "ReturnsInTime", m)
        elif not wf:
            bad = [k for k, v in m["flags"].items() if not v and not (k == "ends_nl" and m["opts"].get("plaintext"))]
            chk.violation("WellFormed:" + "+".join(bad), m)
        elif not stages_ok:
            chk.drift_note(dict(m, why="stage sequence differs from Pipeline.tla"))
    # ---- growth ----
    base = 100 if tier == "quick" else 200
    fams = sorted(pumped(1).keys())
    tjobs = [(f"{name}@{n}", pumped(n)[name], 4 + 6 * 5) for name in fams for n in (base, 2 * base, 4 * base)]
    tres = dict((name, (cpu, r)) for name, cpu, r in pmap(_timed, tjobs, procs=8, chunksize=1))
    growth = {}
    for name in fams:
        t1, t2, t4 = (tres[f"{name}@{n}"][0] for n in (base, 2 * base, 4 * base))
        chk.evaluations += 3
        if None in (t1, t2, t4):
            bad = next(tres[f"{name}@{n}"][1] for n in (base, 2 * base, 4 * base) if tres[f"{name}@{n}"][0] is None)
            if name in ("stars", "underscores") and "RecursionError" in bad["err"] and "D42" in chk.open_findings:
                chk.known_finding("D42", dict(family=name, sizes=[base, 2 * base, 4 * base], error=bad["err"]))
            else:
                chk.violation("ReturnsInTime(pumped)", dict(family=name, outcome=bad["outcome"], error=bad["err"]))
            continue
        growth[name] = [round(t1, 4), round(t2, 4), round(t4, 4)]
        for n in (base, 2 * base, 4 * base):
            fl = tres[f"{name}@{n}"][1]["flags"]
            badf = [k for k, v in fl.items() if not v]
            if badf:
                chk.violation("WellFormed:" + "+".join(badf), dict(family=name, size=n, output_head=tres[f"{name}@{n}"][1]["out_head"]))
        # doubling ratio above a floor: allows quadratic behaviour (x4) with head-room, flags cubic or worse (x8)
        if t2 >= 0.25 and t4 / t2 > 6.0:
            chk.violation("GrowsGently", dict(family=name, cpu_s=growth[name], sizes=[base, 2 * base, 4 * base]))
    # witness of the open finding D42 (evaluated on every run, also in the quick tier whose pumped sizes stay below it)
    w = call((10, "*" * 800 + "a" + "*" * 800, False))
    chk.evaluations += 1
    if w["outcome"] == "raise" and "RecursionError" in w["err"] and "D42" in chk.open_findings:
        chk.known_finding("D42", dict(input="'*' * 800 + 'a' + '*' * 800", error=w["err"]))
    elif w["outcome"] != "return":
        chk.violation("ReturnsWithoutRaising", dict(input="'*' * 800 + 'a' + '*' * 800", outcome=w["outcome"], error=w["err"]))
    chk.notes["pumped_cpu_seconds"] = growth
    # ---- "time stays modest": some tens of kilobytes of every family within a fixed CPU budget ----
    large = 1600 if tier == "quick" else 3200
    ljobs = [(f"{name}@{large}", text, 4 + 6 * 5) for name, text in sorted(pumped_large(large).items())]
    modest = {}
    for name, cpu, r in pmap(_timed, ljobs, procs=8, chunksize=1):
        chk.evaluations += 1
        chk.nontriv(("large", name))
        if cpu is None:
            chk.violation("ReturnsInTime(large)", dict(family=name, outcome=r["outcome"], error=r["err"]))
            continue
        modest[name] = round(cpu, 3)
        if cpu > MODEST_CPU_S * (large / 1600):
            chk.violation("StaysModest", dict(family=name, cpu_s=round(cpu, 2), budget_s=MODEST_CPU_S * (large / 1600), input_chars=len(dict(pumped_large(large))[name.split("@")[0]])))
    chk.notes["large_cpu_seconds"] = modest
    # witness of the open finding D70 (a long run of spaces / tabs inside a paragraph: quadratic in the dependency's table pattern)
    wname, wcpu, wr = _timed(("para_spaces", "a" + " " * 24000 + "b\n", 10))
    chk.evaluations += 1
    if (wcpu is None or wcpu > MODEST_CPU_S) and "D70" in chk.open_findings:
        chk.known_finding("D70", dict(input="'a' + ' ' * 24000 + 'b'", cpu_s=wcpu, outcome=wr["outcome"]))
    elif wcpu is None or wcpu > MODEST_CPU_S:
        chk.violation("StaysModest", dict(family="para_spaces", cpu_s=wcpu, outcome=wr["outcome"]))
    for id_ in list(metas)[:: max(1, len(metas) // 5)][:5]:
        chk.sample({k: metas[id_][k] for k in ("input", "opts", "outcome", "cpu_s", "stages")})
    chk.exhaustive = False
    chk.explanation = "short soups enumerated exhaustively, longer ones and option points sampled by VERIF_SEED"
    return chk.finish()


def replay(path: str) -> int:
    v = json.loads(open(path).read())
    print(json.dumps(v, indent=1))
    return 0
