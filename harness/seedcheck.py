"""Confirm an independently written seeded change and record which checks catch it.

usage: python -m harness.seedcheck <seed-id> <property> <worktree-with-change> <agent-out-dir> [extra checks ...]

1. the change (patch.diff) applies to a clean copy of /repo's HEAD, the package imports, the unedited test suite passes;
2. the demonstration exits 1 with the change and 0 on the unchanged tree;
3. the property's check (and any extra checks named) is run with VERIF_REPO pointing at the changed copy: exit status and the
   first VIOLATION line are recorded (quick tier, then thorough if quick misses it);
4. everything is written to /verif/seeded/<seed-id>/ (patch.diff, demo.py, meta.json)."""
from __future__ import annotations

import json
import os
import shutil
import subprocess
import sys
import tempfile
import time

VERIF = os.path.dirname(os.path.dirname(os.path.abspath(__file__)))
PY = "/venv/bin/python"


def sh(cmd, **kw):
    return subprocess.run(cmd, capture_output=True, text=True, **kw)


def main():
    seed_id, prop, wt, out = sys.argv[1:5]
    extra = sys.argv[5:]
    patch = os.path.join(out, "patch.diff")
    demo = os.path.join(out, "demo.py")
    meta = json.load(open(os.path.join(out, "meta.json")))
    meta = meta.get("agent_meta", meta)          # re-run from /verif/seeded/<id>/ itself
    scratch = tempfile.mkdtemp(prefix="seed-")
    rec = dict(seed=seed_id, property=prop, agent_meta=meta, confirmed={}, checks={})
    try:
        copy = os.path.join(scratch, "repo")
        sh(["git", "-C", "/repo", "worktree", "add", "-q", copy, "HEAD"])
        ap = sh(["git", "-C", copy, "apply", patch])
        rec["confirmed"]["patch_applies"] = ap.returncode == 0
        if ap.returncode != 0:
            rec["confirmed"]["apply_error"] = ap.stderr[-500:]
        t = sh([PY, "-m", "pytest", "-q", "-p", "no:cacheprovider", "-x"], cwd=copy, env=dict(os.environ, PYTHONPATH=f"{copy}/src"))
        rec["confirmed"]["tests_tail"] = t.stdout.strip().splitlines()[-1] if t.stdout.strip() else t.stderr[-200:]
        rec["confirmed"]["tests_pass"] = t.returncode == 0 and "302 passed" in t.stdout
        d1 = sh([PY, demo], cwd=scratch, env=dict(os.environ, PYTHONPATH=f"{copy}/src"), timeout=600)
        d0 = sh([PY, demo], cwd=scratch, env=dict(os.environ, PYTHONPATH="/repo/src"), timeout=600)
        rec["confirmed"]["demo_with_change_exit"] = d1.returncode
        rec["confirmed"]["demo_without_change_exit"] = d0.returncode
        rec["confirmed"]["demo_output_tail"] = (d1.stdout + d1.stderr)[-600:]
        for chk in [prop] + extra:
            for tier in ("quick",) if os.environ.get("SEED_QUICK_ONLY") else ("quick", "thorough"):
                t0 = time.time()
                r = sh([os.path.join(VERIF, "check"), chk, "--tier", tier], cwd=VERIF, env=dict(os.environ, VERIF_REPO=copy), timeout=3600)
                viol = [l for l in r.stdout.splitlines() if l.startswith("VIOLATION") or l.strip().startswith("clause=")]
                rec["checks"][f"{chk}:{tier}"] = dict(exit=r.returncode, wall_s=round(time.time() - t0, 1),
                                                      first=(viol[1][:500] if len(viol) > 1 else viol[0][:300] if viol else r.stdout.strip().splitlines()[-1][:300] if r.stdout.strip() else r.stderr[-300:]))
                if r.returncode == 1:
                    break
        caught = sorted({k.split(":")[0] for k, v in rec["checks"].items() if v["exit"] == 1})
        rec["caught_by"] = caught
        dest = os.path.join(VERIF, "seeded", seed_id)
        os.makedirs(dest, exist_ok=True)
        prev = os.path.join(dest, "meta.json")
        if os.path.exists(prev):
            old = json.load(open(prev))
            rec["history"] = old.get("history", []) + [dict(caught_by=old.get("caught_by"), checks=old.get("checks"), verif_commit=old.get("verif_commit"))]
        if os.path.abspath(out) != os.path.abspath(dest):
            shutil.copy(patch, os.path.join(dest, "patch.diff"))
            shutil.copy(demo, os.path.join(dest, "demo.py"))
        keep = rec["confirmed"]["patch_applies"] and rec["confirmed"]["tests_pass"] and d1.returncode == 1 and d0.returncode == 0
        rec["kept"] = keep
        rec["verif_commit"] = sh(["git", "-C", VERIF, "log", "--format=%h", "-1"]).stdout.strip()
        rec["breaks_property"] = prop
        rec["needs_to_manifest"] = meta.get("needs_to_manifest")
        rec["what_was_run"] = [f"git apply patch.diff on a scratch worktree of /repo HEAD ({sh(['git', '-C', '/repo', 'log', '--format=%h', '-1']).stdout.strip()})",
                               "pytest (302 tests) with PYTHONPATH=<copy>/src", "demo.py with and without the change",
                               "VERIF_REPO=<copy> ./check <id> --tier quick (then thorough if quick exits 0)"]
        json.dump(rec, open(os.path.join(dest, "meta.json"), "w"), indent=1)
        print(json.dumps({k: rec[k] for k in ("seed", "kept", "caught_by")}), json.dumps(rec["confirmed"])[:400])
        for k, v in rec["checks"].items():
            print("  ", k, v["exit"], v["wall_s"], v["first"][:200])
    finally:
        sh(["git", "-C", "/repo", "worktree", "remove", "--force", os.path.join(scratch, "repo")])
        shutil.rmtree(scratch, ignore_errors=True)


if __name__ == "__main__":
    main()
