"""Shared document-level pipeline (C01, C02, C10, C12 ...): families of abstract documents, evaluation on the real
code, traces for spec/DocTrace.tla."""
from __future__ import annotations

import json

from harness import docgen, project, tlc

RENDER_FIXED = True      # spec/Render.tla constant Fixed: TRUE since the D4 repair is committed in /repo
S_ALPHABET = {"P", "H", "B", "C", "T", "R", "Q(", "Lt(", "Ll(", "I(", ")"}
LEAFS = {"P", "H", "B", "C"}      # leaf tokens the builder of Render.tla uses in the default bounded space
RENDER_FIXED_T = True               # Render.tla constant FixedT (table / rule repair)
MDIT_LACKS = ("fndef", "alert", "task", "fnref")


def model_docs(max_nodes: int, max_depth: int, leafs=None):
    """All documents of spec/RenderRead.tla up to the bound: {toks tuple: (lines, prefix_ok, rt_struct, rt_tight)}"""
    res = tlc.run_tlc("RenderRead", tlc.cfg_text(constants=dict(MaxNodes=max_nodes, MaxDepth=max_depth, Leafs=set(leafs or LEAFS), FixedT=RENDER_FIXED_T, Fixed=RENDER_FIXED, DoDump=True),
                                                 invariants=["DumpDoc"]), timeout=3000, coverage=True)
    model = {}
    for r in res.reports:
        if r and r[0] == "D":
            model[tuple(r[1])] = (r[2], r[3], r[4], r[5])
    return model, res


def mdit_toks(tree):
    out = []

    def walk(b):
        k = b[0]
        if k == "p":
            out.append("P")
        elif k == "h":
            out.append("H")
        elif k == "code":
            out.append("C")
        elif k == "table":
            out.append("T")
        elif k == "hr":
            out.append("R")
        elif k == "quote":
            out.append("Q(")
            [walk(c) for c in b[1]]
            out.append(")")
        elif k == "list":
            out.append("L(")
            [walk(c) for c in b[4]]
            out.append(")")
        elif k == "li":
            out.append("I(")
            [walk(c) for c in b[1]]
            out.append(")")
        else:
            out.append("?" + k)
    for b in tree[1]:
        walk(b)
    return out


def eval_text(x: str, opts: dict) -> dict:
    """Format x twice and project input and output with both parsers."""
    from flowmark import reformat_text
    from flowmark.formats.flowmark_markdown import ListSpacing
    o = dict(opts)
    if "list_spacing" in o and isinstance(o["list_spacing"], str):
        o["list_spacing"] = ListSpacing(o["list_spacing"])
    try:
        out1 = reformat_text(x, **o)
        out2 = reformat_text(out1, **o)
    except BaseException as e:  # noqa: BLE001
        return dict(exc=repr(e))
    tm_in, tm_out = project.parse_marko(x), project.parse_marko(out1)
    fm_in, fm_out = project.flat(tm_in), project.flat(tm_out)
    use_i = not any(s.startswith(MDIT_LACKS) for s in fm_in)
    if use_i:
        ti_in, ti_out = project.parse_mdit(x), project.parse_mdit(out1)
        fi_in, fi_out = project.flat(ti_in), project.flat(ti_out)
    else:
        ti_in = None
        fi_in = fi_out = []
    return dict(out1=out1, out2=out2, tm_in=fm_in, tm_out=fm_out, ti_in=fi_in, ti_out=fi_out, use_i=use_i,
                idem=out1 == out2, mdit_tree_in=ti_in)


def eval_s(job):
    """family S: job = (toks (model), opts)."""
    toks, opts = job
    x = docgen.src(list(toks))
    try:
        rt = docgen.real_toks(x)
    except BaseException as e:  # noqa: BLE001
        return dict(toks=list(toks), src=x, exc=repr(e))
    r = eval_text(x, opts)
    r.update(toks=list(toks), src=x, rt=rt, opts=opts)
    if "exc" in r:
        return r
    r["lines"] = docgen.abslines(r["out1"])
    # ambiguity guard: both parsers must read the same block structure from the input
    mi = mdit_toks(r.pop("mdit_tree_in")) if r["use_i"] else None
    mk = [("L(" if t in ("Lt(", "Ll(") else t) for t in rt if t != "B"]
    r["ambiguous"] = mi is not None and mi != mk
    return r


def trace_of(tid: int, fam: str, r: dict, first=None) -> dict:
    return dict(id=tid, fam=fam, toks=r.get("rt", []) if fam == "S" else [], lines=r.get("lines", []) if fam == "S" else [],
                tm_in=r["tm_in"], tm_out=r["tm_out"], ti_in=r["ti_in"], ti_out=r["ti_out"], use_i=r["use_i"], idem=r["idem"],
                first=first or [])


DOC_TRACE_CFG = tlc.cfg_text(spec="TraceSpec", constants=dict(MaxNodes=0, MaxDepth=0, Leafs=LEAFS, FixedT=RENDER_FIXED_T, Fixed=RENDER_FIXED, DoDump=False), invariants=["TraceReport"])


def heading_in_container(toks) -> bool:
    depth = 0
    for t in toks:
        if t in ("Q(", "I(", "Lt(", "Ll("):
            depth += 1
        elif t == ")":
            depth -= 1
        elif t == "H" and depth > 0:
            return True
    return False


def heading_in_tight_item(toks) -> bool:
    """a heading that is a direct child of an item of a tight list"""
    stack = []
    for t in toks:
        if t.endswith("("):
            stack.append(t)
        elif t == ")":
            stack.pop()
        elif t == "H" and len(stack) >= 2 and stack[-1] == "I(" and stack[-2] == "Lt(":
            return True
    return False


def list_first_in_item(toks) -> bool:
    return any(toks[i] == "I(" and toks[i + 1] in ("Lt(", "Ll(") for i in range(len(toks) - 1))


def dumps(x) -> str:
    return json.dumps(x, sort_keys=True)
