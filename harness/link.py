"""Link family (spec/LinkRender.tla, spec/LinkTrace.tla): every link-like construct of the model (inline link, image, full / collapsed /
shortcut reference with its definition, autolink; destination and title kinds) inside a paragraph, formatted and read back.

Used by C01 (same document for both parsers), C02 (idempotent) and C04 (destination, title and label verbatim)."""
from __future__ import annotations

import json
import re

from harness import project, tlc
from harness.par import pmap

DEST = {"plain": "http://x.y/p", "parens": "http://x.y/a_(b)", "escparen": "http://x.y/a\\)b", "revparen": "http://x.y/a\\)b\\(c", "space": "<http://x.y/a b>", "empty": "",
        "amp": "http://x.y/?a=1&b=2", "email": "joe@x.y"}
DEST_VALUE = {"plain": "http://x.y/p", "parens": "http://x.y/a_(b)", "escparen": "http://x.y/a)b", "revparen": "http://x.y/a)b(c", "space": "http://x.y/a b", "empty": "",
              "amp": "http://x.y/?a=1&b=2", "email": "joe@x.y"}
TITLE = {"none": "", "dq": '"the title"', "sq": "'the title'", "par": "(the title)", "dqesc": '"say \\"hi\\" now"', "dqend": '"say \\"hi\\""', "sqdq": "'it \"is\" so'", "bs": '"a\\\\b c"'}
TITLE_VALUE = {"none": None, "dq": "the title", "sq": "the title", "par": "the title", "dqesc": 'say "hi" now', "dqend": 'say "hi"', "sqdq": 'it "is" so', "bs": "a\\b c"}
FORMS = {"inline", "image", "full", "collapsed", "shortcut", "auto"}
TEXT = "link text"


def source(c, variant=0):
    d, t = DEST[c["dest"]], TITLE[c["title"]]
    inside = d + (" " + t if t else "")
    defline = ""
    if c["form"] in ("inline", "image"):
        cons = ("!" if c["form"] == "image" else "") + f"[{TEXT}]({inside})"
        if c["samedef"]:
            defline = f"[ref]: {inside}\n"
    elif c["form"] == "auto":
        cons = f"<{d}>"
    else:
        cons = {"full": f"[{TEXT}][ref]", "collapsed": "[ref][]", "shortcut": "[ref]"}[c["form"]]
        defline = f"[ref]: {inside}\n"
    lead = ["Before ", "- Before ", "> Before "][variant % 3]
    cont = ["", "  ", "> "][variant % 3]
    body = f"{lead}{cons} after.\n"
    if defline:
        body += ("\n" if not cont else cont.rstrip() + "\n") + cont + defline
    return body


def unescape(s: str) -> str:
    return re.sub(r"\\([!-/:-@\[-`{-~])", r"\1", s)


def dest_piece(raw: str):
    angle = raw.startswith("<") and raw.endswith(">")
    body = raw[1:-1] if angle else raw
    val = unescape(body)
    kind = next((k for k, v in DEST_VALUE.items() if v == val and k != "email"), None)
    if kind is None:
        return dict(k="?" + raw, angle=angle, esc=False)
    esc = "\\)" in body or "\\(" in body
    if kind == "escparen" and not esc and not angle:
        esc = False
    return dict(k=kind, angle=angle, esc=esc)


def title_piece(raw: str):
    raw = raw.strip()
    q = "dq" if raw.startswith('"') and raw.endswith('"') and len(raw) >= 2 else "sq" if raw.startswith("'") else "par" if raw.startswith("(") else "?"
    inner = raw[1:-1] if q != "?" else raw
    val = unescape(inner)
    kind = "plain" if val == "the title" else "hasdq" if val in ('say "hi" now', 'it "is" so') else "enddq" if val == 'say "hi"' else "hasbs" if val == "a\\b c" else "?" + raw
    return dict(k=kind, q=q)


def split_inside(inside: str):
    """destination and optional title of the text between the parentheses / after 'label: '"""
    inside = inside.strip()
    if inside[:1] in ('"', "'") or (inside[:1] == "(" and inside.endswith(")") and " " in inside):
        return "", inside                       # empty destination, title only
    if inside.startswith("<"):
        j = inside.find(">")
        return inside[: j + 1], inside[j + 1:].strip()
    m = re.match(r"(\S*)(?:\s+(.*))?$", inside, re.S)
    return m.group(1), (m.group(2) or "").strip()


def observe_pieces(out: str, c):
    """the construct in the output as pieces of LinkRender.outp; None if it cannot be located"""
    stripped = "\n".join(l[2:] if l.startswith(("> ", "  ", "- ")) else ("" if l.strip() in (">", "") else l) for l in out.strip("\n").split("\n"))
    paras = stripped.split("\n\n")
    first = " ".join(l.strip() for l in paras[0].split("\n"))
    pieces = None
    m = re.search(r"Before (.*) after\.", first)
    if not m:
        return None
    cons = m.group(1)
    deflines = [l.strip() for p in paras[1:] for l in p.split("\n") if l.strip().startswith("[ref]:")]
    if c["form"] == "auto":
        mm = re.fullmatch(r"<(.*)>", cons)
        if not mm:
            return None
        v = mm.group(1)
        k = "email" if v == "joe@x.y" else next((kk for kk, vv in DEST_VALUE.items() if vv == v), "?" + v)
        return [dict(p="<"), dict(p="dest", d=dict(k=k, angle=False, esc=False)), dict(p=">")]
    mm = re.fullmatch(r"(!?)\[(.*?)\]\((.*)\)", cons, re.S)
    if mm and not re.fullmatch(r"(!?)\[.*?\]\[.*?\]", cons):
        d, t = split_inside(mm.group(3))
        pieces = [dict(p="![" if mm.group(1) else "["), dict(p="text"), dict(p="dest", d=dest_piece(d))]
        if t:
            pieces.append(dict(p="title", t=title_piece(t)))
        pieces.append(dict(p=")"))
        if deflines:
            d, t = split_inside(deflines[0][len("[ref]:"):])
            pieces.append(dict(p="defdest", d=dest_piece(d)))
            if t:
                pieces.append(dict(p="deftitle", t=title_piece(t)))
        return pieces
    mm = re.fullmatch(r"(!?)\[(.*?)\](?:\[(.*?)\])?", cons)
    if mm:
        pieces = [dict(p="![" if mm.group(1) else "["), dict(p="text"), dict(p="label")]
        if not deflines:
            return pieces
        d, t = split_inside(deflines[0][len("[ref]:"):])
        pieces.append(dict(p="defdest", d=dest_piece(d)))
        if t:
            pieces.append(dict(p="deftitle", t=title_piece(t)))
        return pieces
    return None


def _observe(job):
    from flowmark import reformat_text
    tid, c, variant, opts = job
    x = source(c, variant)
    try:
        o1 = reformat_text(x, **opts)
        o2 = reformat_text(o1, **opts)
    except BaseException as e:  # noqa: BLE001
        return dict(id=tid, src=x, exc=repr(e))
    tm = project.parse_marko(x), project.parse_marko(o1)
    fm = [project.flat(t) for t in tm]
    fi = project.flat(project.parse_mdit(x)), project.flat(project.parse_mdit(o1))
    # markdown-it knows no GFM alerts/footnotes but everything of this family
    # literals without the raw spelling of the definition line (delimiters of dest / title are spelling): compare resolved values
    lit = [[s for s in project.literals(t) if not s.startswith(("def:", "refdef:"))] for t in tm]
    return dict(id=tid, src=x, out=o1, obs=observe_pieces(o1, c), same_m=_strip_defs(fm[0]) == _strip_defs(fm[1]), same_i=fi[0] == fi[1], idem=o1 == o2,
                lit_same=lit[0] == lit[1], in_m=fm[0], out_m=fm[1], in_i=fi[0], out_i=fi[1])


def _strip_defs(flat):
    """marko's tree carries the definition line with its raw spelling (delimiters, escapes); the resolved destination / title of the
    links that use it is what a reader sees, so the raw line is not compared"""
    return [s for s in flat if not s.startswith(("def:", "refdef:"))]


OPTS = [dict(width=88, semantic=False, cleanups=False), dict(width=30, semantic=True, cleanups=True, smartquotes=True, ellipses=True)]
CONSTS = dict(Forms=FORMS, Dests=set(DEST), Titles=set(TITLE), Fixed=True, DoDump=True)


def collect(tier: str):
    res = tlc.run_tlc("LinkRender", tlc.cfg_text(constants=CONSTS, invariants=["Readable", "Kept", "Dump"]), coverage=True, timeout=600)
    for act in ("Open", "Text", "Label", "Dest", "Title", "Close", "Def"):
        if res.coverage.get(act, (0, 0))[0] == 0:
            raise tlc.TlcError(f"vacuous model: action {act} never taken")
    # teeth: the renderer before the repairs D51-D53 violates the properties in the model
    for inv in ("Readable", "Kept"):
        try:
            tlc.run_tlc("LinkRender", tlc.cfg_text(constants=dict(CONSTS, Fixed=False, DoDump=False), invariants=[inv]), workers=2)
            raise tlc.TlcError(f"model sanity: Fixed = FALSE does not violate {inv}")
        except tlc.TlcViolation:
            pass
    cases = sorted((r[1] for r in res.reports if r and r[0] == "K"), key=json.dumps)
    jobs = []
    for k, c in enumerate(cases):
        for variant in (0, 1, 2):
            for oi, o in enumerate(OPTS):
                if tier == "quick" and (k + variant + oi) % 2:
                    continue
                jobs.append((len(jobs) + 1, c, variant, o))
    obs = pmap(_observe, jobs, chunksize=20)
    traces, keep, errors = [], {}, []
    for job, o in zip(jobs, obs):
        if "exc" in o:
            errors.append(dict(o, opts=job[3]))
            continue
        traces.append(dict(id=o["id"], c=job[1], obs=o["obs"] or [], same_m=o["same_m"], same_i=o["same_i"], lit_same=o["lit_same"], idem=o["idem"]))
        keep[o["id"]] = dict(o, c=job[1], opts=job[3], variant=job[2])
    reports, gen, dist = tlc.validate_traces("LinkTrace", traces, cfg=tlc.cfg_text(spec="TraceSpec", constants=dict(CONSTS, DoDump=False),
                                                                                 invariants=["TraceReport"]), timeout=600)
    return dict(model=res, cases=len(cases), items=[(keep[t["id"]], reports[t["id"]]) for t in traces], errors=errors, generated=gen, distinct=dist, ntraces=len(traces))


def judge(chk, tier: str, prop: str) -> None:
    d = collect(tier)
    chk.add_tlc(d["model"])
    chk.states += d["distinct"]
    chk.transitions += d["generated"]
    chk.traces += d["ntraces"]
    stats = dict(cases=d["cases"], judged=d["ntraces"], failing=0)
    for e in d["errors"]:
        chk.evaluations += 1
        chk.violation("NoException", dict(fam="link", src=e["src"], opts=e["opts"], exc=e["exc"]))
    for o, r in d["items"]:
        _, id_, acc, readable, kept, same_m, same_i, lit_same, idem = r
        chk.evaluations += 1
        chk.nontriv(("link", json.dumps(o["c"], sort_keys=True), o["variant"], json.dumps(o["opts"], sort_keys=True)))
        m = dict(fam="link", case=o["c"], src=o["src"], opts=o["opts"], out=o["out"], observed_pieces=o["obs"])
        if prop == "C01":
            fails = [n for n, v in (("SameDocument(marko)", same_m), ("SameDocument(markdown-it)", same_i)) if not v]
            if fails:
                m.update(marko_in=o["in_m"], marko_out=o["out_m"])
        elif prop == "C02":
            fails = [] if idem else ["Idempotent"]
        else:
            fails = [n for n, v in (("Readable", readable), ("Kept", kept), ("SameLiterals", lit_same)) if not v]
        if fails:
            stats["failing"] += 1
            chk.violation("+".join(fails) + "(link)", m)
        elif not acc:
            chk.drift_note(dict(m, why="pieces differ from LinkRender.tla"))
    chk.notes["family_link"] = stats
