"""Shared abstract vocabulary: abstract words <-> concrete strings, output lines -> word indices.

This is the trusted projection between the TLA+ models (words are [k, n] records) and real text."""
from __future__ import annotations

HAZ = ["-", "+", "*", "#", ">"]
NUM = ["1.", "2)", "7.", "3)"]
ATOM5 = ["`a b`", "[a b]", "<a b>"]          # 5-column atomic constructs with an inner space
PLAIN = "xyzuvw"


def concretise(words: list[dict], variant: int = 0, positional: bool = True) -> list[str]:
    """Abstract words -> concrete tokens of exactly the modelled length. Deterministic in (index, variant);
    with positional=False the token depends on the word record only (needed when indices shift: C11 edits)."""
    out = []
    for j, w in enumerate(words):
        k, n = w["k"], w["n"]
        if not positional:
            j = n
        if k == "p":
            c = PLAIN[(j + variant) % len(PLAIN)]
            out.append(c * n)
        elif k == "s":  # sentence-ending word of length n >= 3: letters (last lowercase) + one of the endings SENTENCE_END_RE accepts
            c = "abcdefg"[(j + variant) % 7]
            ends = [".", "?", "!"] if n < 5 else [".", "?", "!", ".\"", ".'", ".”", ".’", ".)", "\".", "’.", ")!", "”?"]
            e = ends[(j + variant) % len(ends)]
            m = n - len(e)
            # the letters before the last may be of either case (GitHub. / APIs. / iPhone!): one spelling in three has an inner capital
            body = c * m if m < 3 or (j + variant) % 3 != 1 else c + c.upper() + c * (m - 2)
            out.append(body + e)
        elif k == "h":
            out.append(HAZ[(j + variant) % len(HAZ)])
        elif k == "n":
            out.append(NUM[(j + variant) % len(NUM)])
        elif k == "a":
            assert n == 5
            out.append(ATOM5[(j + variant) % len(ATOM5)])
        else:
            raise ValueError(k)
        assert len(out[-1]) == n, (w, out[-1])
    return out


def escaped_form(tok: str) -> str | None:
    """How a line-leading marker may legitimately be protected by a backslash."""
    if tok in HAZ or (tok and set(tok) == {"#"}):
        return "\\" + tok
    if tok.startswith((">", "```", "~~~")) or (len(tok) >= 1 and set(tok) <= {"-"}) or (tok and set(tok) <= {"="}) \
            or (len(tok) >= 3 and (set(tok) <= {"*"} or set(tok) <= {"_"})):
        return "\\" + tok
    if len(tok) >= 2 and tok[:-1].isdigit() and tok[-1] in ".)":
        return tok[:-1] + "\\" + tok[-1]
    return None


def abstract_lines(tokens: list[str], out_lines: list[str], ii: str, si: str,
                   indents_present: bool = True) -> dict:
    """Map real output lines back to word indices.

    Returns dict(ok, out=[[{w,e}]], linelen=[int], ind=[bool]). `ok` is False when the output is not the
    input's token sequence (apart from escapes on tokens that have an escaped form) with single spaces."""
    res = {"ok": True, "out": [], "linelen": [], "ind": []}
    idx = 0
    for j, line in enumerate(out_lines):
        indent = ii if j == 0 else si
        if indents_present:
            has = line.startswith(indent)
            body = line[len(indent):] if has else line.lstrip(" ")
            res["linelen"].append(len(line))
        else:       # function returns bare lines; the caller adds the indents (column offsets only)
            has = True
            body = line
            res["linelen"].append(len(line) + len(indent))
        res["ind"].append(bool(has))
        cur = []
        pos = 0
        while pos < len(body):
            if idx >= len(tokens):
                return _bad(res)
            tok = tokens[idx]
            esc = escaped_form(tok)
            if body.startswith(tok, pos):
                cur.append({"w": idx + 1, "e": False})
                pos += len(tok)
            elif esc and body.startswith(esc, pos):
                cur.append({"w": idx + 1, "e": True})
                pos += len(esc)
            else:
                return _bad(res)
            idx += 1
            if pos < len(body):
                if body[pos] != " ":
                    return _bad(res)
                pos += 1
                if pos >= len(body):      # trailing space
                    return _bad(res)
        if not cur:
            return _bad(res)
        res["out"].append(cur)
    if idx != len(tokens):
        return _bad(res)
    return res


def _bad(res):
    return {"ok": False, "out": [], "linelen": [], "ind": []}
