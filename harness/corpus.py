"""A small corpus of construct-rich documents used by the option-cube families (C02, C07, C08, C09, C10, C12, C13).
Each entry is (name, text).  They are inputs, not expected outputs: every verdict is a relation between runs."""
from __future__ import annotations

RICH = [
    ("prose", 'This is a "quoted" sentence that\'s fairly long and then it ends. The second sentence goes on... for a little while longer '
              "and then stops as well. Third one here! And 'single quotes' too.\n"),
    ("heading_bold", "# **Bold Title**\n\n## ***Bold italic***\n\n### **Partly** bold\n\n#### Plain *emph* heading\n\ntext\n"),
    ("lists", "- tight one\n- tight two\n  - nested a\n  - nested b\n\n1. loose one\n\n2. loose two\n\n   second paragraph of two\n\n* [ ] task open\n* [x] task done\n"),
    ("quote", "> quoted text that is long enough to need wrapping when the width is small enough\n> second line\n>\n> - item in quote\n> - another\n"),
    ("code", "Intro paragraph.\n\n```python\ndef f(x):\n    return x  # \"quoted\" ... dots\n\n```\n\n    indented code\n\n~~~\ntilde fence\n~~~\n"),
    ("inline", "Text with `code \"span\"...` and [a link](http://example.com/a_b \"Title here\") and ![img](x.png) and <http://auto.link> "
               "and <span class=\"x\">html</span> and **strong *nested* text** and ~~strike~~ done.\n"),
    ("refs", "See [x] and [text][x] and a footnote[^n] here.\n\n[x]: http://example.com/very/long/path \"the title\"\n\n[^n]: The note text that is long "
             "enough to wrap around at small widths.\n\n    Second paragraph of the note.\n"),
    ("table", "| a | b \"q\" |\n|---|:-:|\n| 1 | `c\\|d` |\n| long cell text... here | x |\n\nAfter table.\n"),
    ("alert", "> [!NOTE]\n> Alert body text that's here... and long enough to wrap at smaller widths for sure.\n\n> [!WARNING]\n> Second.\n"),
    ("tags", "{% field kind=\"string\" %}\n- a\n- b\n{% /field %}\n\nText with {% tag %}{% /tag %} adjacent <!-- comment \"q\" --> tags and {{ var }} here.\n\n"
             "<!-- block comment -->\nParagraph after comment.\n"),
    ("hardbreak", "line one\\\nline two  \nline three\n\n## Heading with break\\\n\nafter\n"),
    ("frontmatter", "---\ntitle: \"Quoted... title\"\nlist:\n  - a\n---\n\n# Doc\n\nBody \"text\"... here.\n"),
    ("hr_setext", "Setext Heading\n===\n\nSecond\n---\n\n* * *\n\n___\n\npara\n"),
    ("nested", "1. one\n   > quote in item\n   > more\n\n   ```\n   code in item\n   ```\n2. two\n   - inner\n     continued line of inner\n"),
    ("escapes", "1\\. not a list\n\n\\# not a heading \\* star \\_ under\n\n2\\) paren and 1986\\. A great year\n"),
    ("cjk", "中文 and English混合 text。Another sentence here.\n"),
    ("long_words", "averyveryveryverylongwordthatdoesnotfitanywhere and http://example.com/a/very/long/url/that/does/not/fit short\n"),
    ("empty", ""),
    ("only_heading", "# Title"),
    ("def_list_like", "Term\n: not a def list\n\n- a\n\n  b\n\n- c\n"),
    ("olist_digits", "8. eighth\n9. ninth item\n\n10. tenth first paragraph\n\n    tenth second paragraph\n\n    ```\n    code in ten\n    ```\n11. eleventh\n    - nested in eleven\n"),
    ("olist_99", "99. ninety-nine\n\n    second para of 99\n100. hundred\n\n     second para of 100\n"),
    ("soft_then_hard", "Well... first line\nsecond line\\\nthird line  \nfourth \"quoted\" line\nfifth\n\n- item first\n  item second\\\n  item third\n"),
    ("escaped_numerals", "see section\n1\\. for the details and 2\\) too\n\n3\\. starts a paragraph\n\n- 4\\. in an item\n"),
    ("backslash_break", "A path ends C:\\\\\\\nnext line after a hard break\n\nfive of them \\\\\\\\\\\nthen text\n\n- item ends x\\\\\\\n  continued\n\n> quote \\\\\\\n> more\n\ntwo only \\\\\nno break here\n"),
    ("link_label_text", "See [docs](http://other.example/x \"O\") and [api][docs] and [docs] and [API] here.\n\n[docs]: http://docs.example/ \"D\"\n[api]: http://api.example/\n"),
    ("olist_zero", "0. zero\n1. one\n\n- 00. inner zero\n  01. inner one\n"),
    ("hardbreak_repeat", "yes\\\nno\\\nyes\\\nno\n\n- same line\\\n  other\\\n  same line\\\n  end\n\n> a  \n> a  \n> a\n"),
    ("table_then_escape", "| A | B |\n|---|---|\n| x | y |\n\n1\\. not a list\n\n- 2\\. text\n"),
]


# witnesses of open findings whose output is not stable: used by C01 / C02 only (their attribution rules know them), not by the
# option-cube families of the other properties
FINDING_DOCS = [
    ("footnote_nextline", "text[^1] and more[^2]\n\n[^1]:\n    Starts on next line\n\n[^2]: ordinary note\n"),
    ("footnote_in_quote", "> note[^n] here\n>\n> [^n]: Note text.\n>\n>     more\n>\n> following paragraph in the quote\n\nafter\n"),
]


def d56_trigger(src: str) -> bool:
    """a line that is only a footnote label and a colon, directly followed by an indented line (finding D56)"""
    import re
    return bool(re.search(r"(?m)^\[\^[^\]\n]+\]:[ \t]*\n[ \t]+\S", src))


def _def_swallows(src: str) -> bool:
    """the defect itself, read off the parser's tree of the source: a footnote definition inside a quote / list item / alert that holds more
    than one block (it took the following blocks of its container as its continuation). A definition whose tree is right is not excused."""
    from flowmark.formats.flowmark_markdown import flowmark_markdown
    try:
        doc = flowmark_markdown().parse(src)
    except BaseException:  # noqa: BLE001
        return False

    def walk(e, inside):
        n = type(e).__name__
        kids = getattr(e, "children", None)
        if not isinstance(kids, list):
            return False
        if n == "FootnoteDef" and inside and sum(1 for k in kids if type(k).__name__ != "BlankLine") > 1:
            return True
        return any(walk(k, inside or n in ("Quote", "ListItem", "Alert", "CustomAlert")) for k in kids)
    return walk(doc, False)


def d57_trigger(src: str) -> bool:
    """a list inside a footnote definition (on the label line or on a continuation line), or a footnote definition inside a quote or list
    item (finding D57)"""
    import re
    if re.search(r"(?m)^ {0,3}(?:> ?|[-*+] +|\d+[.)] +)(?:> ?| +|[-*+] +|\d+[.)] +)*\[\^[^\]\n]+\]:", src) and _def_swallows(src):
        return True
    lines = src.split("\n")
    indef = False
    for l in lines:
        body = re.sub(r"^(?:> ?)+", "", l)
        m = re.match(r" {0,3}\[\^[^\]\n]+\]:[ \t]*(.*)$", body)
        if m:
            indef = True
            if re.match(r"(?:[-*+]|\d+[.)])(?:[ \t]|$)", m.group(1)):
                return True
            continue
        if indef:
            if body.strip() == "":
                continue
            if not body.startswith("    ") and not body.startswith("\t"):
                indef = False
                continue
            if re.match(r"\s*(?:[-*+]|\d+[.)])(?:[ \t]|$)", body):
                return True
    return False


def option_cube(tier: str):
    """(name, kwargs) over width x mode x typography/cleanups x list spacing, plus plaintext."""
    widths = (-1, 0, 1, 10, 20, 40, 88) if tier == "thorough" else (0, 10, 40, 88)
    out = []
    for w in widths:
        for sem in (False, True):
            for cl in (False, True):
                for sq in (False, True):
                    for el in (False, True):
                        for ls in ("preserve", "loose", "tight"):
                            if tier != "thorough" and (cl + sq + el) not in (0, 3) and ls != "preserve":
                                continue
                            out.append(dict(width=w, semantic=sem, cleanups=cl, smartquotes=sq, ellipses=el, list_spacing=ls))
        out.append(dict(width=w, plaintext=True))
    return out
