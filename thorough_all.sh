#!/bin/sh
# helper: run the thorough tier of every check, one after the other (hours); prints the verdict line and the first violation of each
for c in C01 C02 C03 C04 C05 C06 C07 C08 C09 C10 C11 C12 C13 C14 C15 C16 C17 C18; do
  /usr/bin/time -f "%e s, %M KB max RSS" ./check $c --tier thorough 2>&1 | grep -v "^KNOWN" | cut -c1-600 | tail -4
done
